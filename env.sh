# Sourced by every command: offline Go 1.24 toolchain from the module cache.
export PATH=/root/go/pkg/mod/golang.org/toolchain@v0.0.1-go1.24.0.linux-amd64/bin:$PATH
export GOTOOLCHAIN=local GOSUMDB=off GOFLAGS=-mod=mod GOPROXY=off
