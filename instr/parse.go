package main

import (
	"go/ast"
	"go/parser"
	"go/token"
)

func parserParse(fset *token.FileSet, name string, src []byte) (*ast.File, error) {
	return parser.ParseFile(fset, name, src, parser.ParseComments)
}
