// instr writes instrumented copies of the code under test:
//   - for /repo: copies of every Go file that ranges over a map (or, with -globals, touches a package-level
//     variable), plus an overlay.json mapping the originals to the copies (go build -overlay);
//   - for the dependency moorara/algo: a complete hooked copy of the module in which every range over a map goes
//     through rt.MapOrder and every pseudo-random shuffle through rt.Shuffle (go build -modfile with a replace).
// Usage: instr -out <dir> [-globals] [-dep]
package main

import (
	"bytes"
	"encoding/json"
	"flag"
	"fmt"
	"go/ast"
	"go/format"
	"go/token"
	"go/types"
	"os"
	"os/exec"
	"path/filepath"
	"regexp"
	"strings"

	"golang.org/x/tools/go/ast/astutil"
	"golang.org/x/tools/go/packages"
)

const rtPath = "github.com/gardenbed/emerge/verif/rt"

type stats struct {
	Concurrency  int      `json:"concurrency_operations"`
	Unowned      []string `json:"unowned_concurrency"`
	MapRanges    int      `json:"map_ranges"`
	GlobalPoints int      `json:"global_points"`
	Files        int      `json:"files"`
	Skipped      []string `json:"skipped"`
	Sites        []string `json:"sites"`
}

func main() {
	out := flag.String("out", "", "output directory")
	globals := flag.Bool("globals", false, "insert scheduling points before accesses to package-level variables of /repo")
	dep := flag.Bool("dep", false, "also produce a hooked copy of the dependency")
	flag.Parse()
	if *out == "" {
		fmt.Fprintln(os.Stderr, "instr: -out required")
		os.Exit(2)
	}
	must(os.MkdirAll(*out, 0o755))
	st := &stats{}
	overlay := map[string]string{}
	instrumentModule("/repo", filepath.Join(*out, "repo"), *globals, true, st, overlay)
	b, _ := json.MarshalIndent(map[string]any{"Replace": overlay}, "", " ")
	must(os.WriteFile(filepath.Join(*out, "overlay.json"), b, 0o644))
	if *dep {
		src := modDir("github.com/moorara/algo")
		dst := filepath.Join(*out, "algo")
		must(os.RemoveAll(dst))
		if outb, err := exec.Command("cp", "-r", src, dst).CombinedOutput(); err != nil {
			fail("copy dependency: %v %s", err, outb)
		}
		_ = exec.Command("chmod", "-R", "u+w", dst).Run()
		instrumentModule(dst, dst, false, false, st, nil)
		hookShuffles(dst)
	}
	sb, _ := json.MarshalIndent(st, "", " ")
	must(os.WriteFile(filepath.Join(*out, "stats.json"), sb, 0o644))
	fmt.Printf("instr: %d map ranges, %d global points, %d concurrency operations handed to the scheduler (%d not owned), %d files rewritten, %d skipped\n", st.MapRanges, st.GlobalPoints, st.Concurrency, len(st.Unowned), st.Files, len(st.Skipped))
}

func must(err error) {
	if err != nil {
		fail("%v", err)
	}
}

func fail(format string, a ...any) {
	fmt.Fprintf(os.Stderr, "instr: "+format+"\n", a...)
	os.Exit(2)
}

func modDir(path string) string {
	cmd := exec.Command("go", "list", "-m", "-f", "{{.Dir}}", path)
	cmd.Dir = "/repo"
	b, err := cmd.Output()
	if err != nil {
		fail("go list -m %s: %v", path, err)
	}
	return strings.TrimSpace(string(b))
}

// hookShuffles routes the dependency's pseudo-random shuffles through rt.Shuffle.
func hookShuffles(dir string) {
	re := regexp.MustCompile(`r\.Shuffle\(len\(indices\), func\(i, j int\) \{`)
	for _, f := range []string{"set/set.go", "symboltable/chain_hash_table.go", "symboltable/double_hash_table.go", "symboltable/linear_hash_table.go", "symboltable/quadratic_hash_table.go"} {
		p := filepath.Join(dir, f)
		b, err := os.ReadFile(p)
		must(err)
		if !re.Match(b) {
			fail("shuffle site not found in %s", f)
		}
		b = re.ReplaceAll(b, []byte(`verifrt.Shuffle("`+f+`", len(indices), func(i, j int) {`))
		b = addImport(b, f)
		must(os.WriteFile(p, b, 0o644))
	}
	p := filepath.Join(dir, "sort/shuffle.go")
	b, err := os.ReadFile(p)
	must(err)
	re2 := regexp.MustCompile(`(?s)func Shuffle\[T any\]\(a \[\]T, r \*rand\.Rand\) \{.*?\n\}\n`)
	if !re2.Match(b) {
		fail("sort.Shuffle not found")
	}
	b = re2.ReplaceAll(b, []byte("func Shuffle[T any](a []T, r *rand.Rand) {\n\t_ = r\n\tverifrt.Shuffle(\"sort/shuffle.go\", len(a), func(i, j int) { a[i], a[j] = a[j], a[i] })\n}\n"))
	b = addImport(b, "sort/shuffle.go")
	must(os.WriteFile(p, b, 0o644))
}

func addImport(src []byte, name string) []byte {
	fset := token.NewFileSet()
	f, err := parserParse(fset, name, src)
	must(err)
	astutil.AddNamedImport(fset, f, "verifrt", rtPath)
	var buf bytes.Buffer
	must(format.Node(&buf, fset, f))
	return buf.Bytes()
}

func instrumentModule(root, outRoot string, globals, viaOverlay bool, st *stats, overlay map[string]string) {
	cfg := &packages.Config{
		Mode:       packages.NeedName | packages.NeedFiles | packages.NeedCompiledGoFiles | packages.NeedSyntax | packages.NeedTypes | packages.NeedTypesInfo | packages.NeedImports,
		Dir:        root,
		BuildFlags: []string{"-tags=verif", "-mod=mod"},
		Env:        append(os.Environ(), "GOFLAGS=-mod=mod", "GOWORK=off"),
	}
	pkgs, err := packages.Load(cfg, "./...")
	if err != nil {
		fail("load %s: %v", root, err)
	}
	for _, pkg := range pkgs {
		if len(pkg.Errors) > 0 {
			st.Skipped = append(st.Skipped, fmt.Sprintf("%s: %v", pkg.PkgPath, pkg.Errors[0]))
			continue
		}
		if strings.HasSuffix(pkg.PkgPath, "/verif/rt") {
			continue
		}
		for i, file := range pkg.Syntax {
			path := pkg.CompiledGoFiles[i]
			if !strings.HasPrefix(path, root) || strings.HasSuffix(path, "_test.go") {
				continue
			}
			rel, _ := filepath.Rel(root, path)
			changed := rewriteFile(pkg, file, rel, globals, st)
			if viaOverlay && rewriteConcurrency(pkg, file, rel, st) {
				changed = true
			}
			if !changed {
				continue
			}
			usesRT := false
			ast.Inspect(file, func(n ast.Node) bool {
				if sel, ok := n.(*ast.SelectorExpr); ok {
					if id, ok := sel.X.(*ast.Ident); ok && id.Name == "verifrt" {
						usesRT = true
					}
				}
				return !usesRT
			})
			if usesRT {
				astutil.AddNamedImport(pkg.Fset, file, "verifrt", rtPath)
			}
			var buf bytes.Buffer
			if err := format.Node(&buf, pkg.Fset, file); err != nil {
				fail("print %s: %v", path, err)
			}
			dst := filepath.Join(outRoot, rel)
			must(os.MkdirAll(filepath.Dir(dst), 0o755))
			must(os.WriteFile(dst, buf.Bytes(), 0o644))
			st.Files++
			if viaOverlay {
				overlay[path] = dst
			}
		}
	}
}

func rtCall(name string, args ...ast.Expr) *ast.CallExpr {
	return &ast.CallExpr{Fun: &ast.SelectorExpr{X: ast.NewIdent("verifrt"), Sel: ast.NewIdent(name)}, Args: args}
}

// rewriteConcurrency hands the concurrency of the code under test to the cooperative scheduler of rt: `go f(x)` becomes
// verifrt.Go (arguments evaluated at the statement, as the language prescribes), channel sends and receives outside
// select statements become verifrt.Send / Recv / Recv2, and package sync is replaced by rt/vsync. What cannot be owned
// (select statements, range over a channel) is listed in the statistics.
func rewriteConcurrency(pkg *packages.Package, file *ast.File, rel string, st *stats) bool {
	changed := false
	fset := pkg.Fset
	site := func(n ast.Node) string { return fmt.Sprintf("%s:%d", rel, fset.Position(n.Pos()).Line) }
	for _, im := range file.Imports {
		if im.Path.Value == `"sync"` {
			im.Path.Value = fmt.Sprintf("%q", rtPath+"/vsync")
			if im.Name == nil {
				im.Name = ast.NewIdent("sync")
			}
			changed = true
			st.Concurrency++
		}
	}
	tmp := 0
	skip := map[ast.Node]bool{}
	astutil.Apply(file, func(c *astutil.Cursor) bool {
		if c.Node() != nil && skip[c.Node()] {
			return false
		}
		switch n := c.Node().(type) {
		case *ast.SelectStmt:
			st.Unowned = append(st.Unowned, "select at "+site(n))
		case *ast.RangeStmt:
			if t := pkg.TypesInfo.TypeOf(n.X); t != nil {
				if _, ok := t.Underlying().(*types.Chan); ok {
					st.Unowned = append(st.Unowned, "range over a channel at "+site(n))
				}
			}
		case *ast.CommClause:
			// the communication of a select case stays a real operation: do not descend into it
			if n.Comm != nil {
				skip[n.Comm] = true
			}
		}
		return true
	}, func(c *astutil.Cursor) bool {
		switch n := c.Node().(type) {
		case *ast.GoStmt:
			var pre []ast.Stmt
			call := n.Call
			if lit, ok := call.Fun.(*ast.FuncLit); !ok || len(call.Args) > 0 {
				_ = lit
				// evaluate the arguments now, run the call later
				args := make([]ast.Expr, len(call.Args))
				for i, a := range call.Args {
					tmp++
					name := fmt.Sprintf("verifArg%d", tmp)
					pre = append(pre, &ast.AssignStmt{Lhs: []ast.Expr{ast.NewIdent(name)}, Tok: token.DEFINE, Rhs: []ast.Expr{a}})
					args[i] = ast.NewIdent(name)
				}
				ell := call.Ellipsis
				call = &ast.CallExpr{Fun: call.Fun, Args: args, Ellipsis: ell}
			}
			body := &ast.FuncLit{Type: &ast.FuncType{Params: &ast.FieldList{}}, Body: &ast.BlockStmt{List: []ast.Stmt{&ast.ExprStmt{X: call}}}}
			spawn := &ast.ExprStmt{X: rtCall("Go", body)}
			if len(pre) == 0 {
				c.Replace(spawn)
			} else {
				c.Replace(&ast.BlockStmt{List: append(pre, spawn)})
			}
			changed = true
			st.Concurrency++
		case *ast.SendStmt:
			c.Replace(&ast.ExprStmt{X: rtCall("Send", n.Chan, n.Value)})
			changed = true
			st.Concurrency++
		case *ast.UnaryExpr:
			if n.Op != token.ARROW {
				return true
			}
			// a receive that is the communication of a select case stays as it is
			switch p := c.Parent().(type) {
			case *ast.AssignStmt:
				if len(p.Lhs) == 2 && len(p.Rhs) == 1 {
					c.Replace(rtCall("Recv2", n.X))
					changed = true
					st.Concurrency++
					return true
				}
			case *ast.ValueSpec:
				if len(p.Names) == 2 && len(p.Values) == 1 {
					c.Replace(rtCall("Recv2", n.X))
					changed = true
					st.Concurrency++
					return true
				}
			}
			c.Replace(rtCall("Recv", n.X))
			changed = true
			st.Concurrency++
		}
		return true
	})
	return changed
}

func rewriteFile(pkg *packages.Package, file *ast.File, rel string, globals bool, st *stats) bool {
	changed := false
	fset := pkg.Fset
	// package-level variables of this package (for -globals)
	isGlobal := func(id *ast.Ident) bool {
		obj := pkg.TypesInfo.Uses[id]
		if obj == nil {
			obj = pkg.TypesInfo.Defs[id]
		}
		v, ok := obj.(*types.Var)
		if !ok || v.IsField() || v.Pkg() == nil {
			return false
		}
		return v.Parent() == v.Pkg().Scope() && v.Pkg() == pkg.Types
	}
	astutil.Apply(file, func(c *astutil.Cursor) bool {
		switch n := c.Node().(type) {
		case *ast.RangeStmt:
			t := pkg.TypesInfo.TypeOf(n.X)
			if t == nil {
				return true
			}
			if _, ok := t.Underlying().(*types.Map); ok {
				site := fmt.Sprintf("%s:%d", rel, fset.Position(n.Pos()).Line)
				n.X = &ast.CallExpr{
					Fun:  &ast.SelectorExpr{X: ast.NewIdent("verifrt"), Sel: ast.NewIdent("MapOrder")},
					Args: []ast.Expr{n.X, &ast.BasicLit{Kind: token.STRING, Value: fmt.Sprintf("%q", site)}},
				}
				st.MapRanges++
				st.Sites = append(st.Sites, site)
				changed = true
			}
		}
		return true
	}, nil)
	if globals {
		// insert verifrt.Point(...) before every statement (inside function bodies) that mentions a package-level variable
		ast.Inspect(file, func(n ast.Node) bool {
			fn, ok := n.(*ast.FuncDecl)
			if !ok || fn.Body == nil {
				return true
			}
			if insertPoints(fn.Body, isGlobal, rel, fset, st) {
				changed = true
			}
			return false
		})
	}
	return changed
}

// insertPoints rewrites statement lists: before a simple statement that mentions a global, a Point call is inserted.
func insertPoints(block *ast.BlockStmt, isGlobal func(*ast.Ident) bool, rel string, fset *token.FileSet, st *stats) bool {
	changed := false
	var lists func(stmts []ast.Stmt) []ast.Stmt
	mentions := func(n ast.Node) string {
		name := ""
		ast.Inspect(n, func(x ast.Node) bool {
			switch y := x.(type) {
			case *ast.FuncLit, *ast.BlockStmt:
				return false
			case *ast.Ident:
				if name == "" && isGlobal(y) {
					name = y.Name
				}
			}
			return true
		})
		return name
	}
	lists = func(stmts []ast.Stmt) []ast.Stmt {
		var out []ast.Stmt
		for _, s := range stmts {
			var head ast.Node = s
			switch v := s.(type) {
			case *ast.BlockStmt:
				v.List = lists(v.List)
				head = nil
			case *ast.IfStmt:
				v.Body.List = lists(v.Body.List)
				if eb, ok := v.Else.(*ast.BlockStmt); ok {
					eb.List = lists(eb.List)
				}
				head = v.Cond
			case *ast.ForStmt:
				v.Body.List = lists(v.Body.List)
				head = nil
				if v.Cond != nil {
					head = v.Cond
				}
			case *ast.RangeStmt:
				v.Body.List = lists(v.Body.List)
				head = v.X
			case *ast.SwitchStmt:
				for _, cc := range v.Body.List {
					c := cc.(*ast.CaseClause)
					c.Body = lists(c.Body)
				}
				head = nil
				if v.Tag != nil {
					head = v.Tag
				}
			case *ast.TypeSwitchStmt:
				for _, cc := range v.Body.List {
					c := cc.(*ast.CaseClause)
					c.Body = lists(c.Body)
				}
				head = nil
			case *ast.LabeledStmt, *ast.SelectStmt:
				head = nil
			}
			if head != nil {
				if g := mentions(head); g != "" {
					site := fmt.Sprintf("%s:%d", rel, fset.Position(s.Pos()).Line)
					out = append(out, &ast.ExprStmt{X: &ast.CallExpr{
						Fun:  &ast.SelectorExpr{X: ast.NewIdent("verifrt"), Sel: ast.NewIdent("Point")},
						Args: []ast.Expr{&ast.BasicLit{Kind: token.STRING, Value: fmt.Sprintf("%q", g)}, &ast.BasicLit{Kind: token.STRING, Value: fmt.Sprintf("%q", site)}},
					}})
					st.GlobalPoints++
					changed = true
				}
			}
			out = append(out, s)
		}
		return out
	}
	block.List = lists(block.List)
	return changed
}
