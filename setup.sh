#!/bin/bash
# Builds every check binary once (warms the Go build cache); offline, from files on disk only.
cd "$(dirname "$0")" || exit 1
. ./env.sh
mkdir -p .bin evidence replays
cd harness || exit 1
rc=0
for d in cmd/*/; do
  n=$(basename "$d")
  go build -tags verif -o ../.bin/"$n" ./cmd/"$n" || rc=1
done
exit $rc
