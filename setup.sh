#!/bin/bash
# Builds every check binary once (warms the Go build cache); offline, from files on disk only.
cd "$(dirname "$0")" || exit 1
. ./env.sh
mkdir -p .bin evidence replays
cd harness || exit 1
rc=0
for d in cmd/*/; do
  n=$(basename "$d")
  if [ -x "$d/build.sh" ]; then
    # built from instrumented sources; also warms the build cache for the instrumented dependency copy
    "$d/build.sh" "$PWD/../.bin/$n" >/dev/null 2>&1 || rc=1
    rm -rf /tmp/verif-"$n"-instr
  else
    go build -tags verif -o ../.bin/"$n" ./cmd/"$n" || rc=1
  fi
done
exit $rc
