// Package lrref is a textbook LALR(1) construction (canonical LR(1) item sets merged by core) with the
// documented precedence/associativity resolution. It shares no code with the implementation under test.
package lrref

import (
	"fmt"
	"sort"
	"strings"
)

// Sym is a grammar symbol; terminals and non-terminals live in separate name spaces.
type Sym struct {
	Name string
	Term bool
}

func (s Sym) key() string {
	if s.Term {
		return "T:" + s.Name
	}
	return "N:" + s.Name
}

// Prod is a production.
type Prod struct {
	Head string
	Body []Sym
}

func (p Prod) String() string {
	parts := []string{}
	for _, s := range p.Body {
		if s.Term {
			parts = append(parts, fmt.Sprintf("%q", s.Name))
		} else {
			parts = append(parts, s.Name)
		}
	}
	if len(parts) == 0 {
		parts = []string{"ε"}
	}
	return p.Head + " → " + strings.Join(parts, " ")
}

// End is the end-of-input terminal.
const End = "\x00$end"

// Level is one precedence level.
type Level struct {
	Assoc string          // "left" | "right" | "none"
	Terms map[string]bool // terminal handles
	Prods map[string]bool // production handles, keyed by Prod.String()
}

// Action kinds.
const (
	Shift  = "shift"
	Reduce = "reduce"
	Accept = "accept"
)

// Action is one table action; Arg is the target state (shift) or production index (reduce; index into Grammar.Prods).
type Action struct {
	Kind string
	Arg  int
}

// Table is the result of the construction.
type Table struct {
	G         *Grammar
	NStates   int
	Actions   []map[string][]Action // per state: terminal -> actions after resolution (len>1 = unresolved conflict)
	Gotos     []map[string]int      // per state: non-terminal -> state
	Conflicts []Conflict            // unresolved
	Resolved  int                   // number of cells resolved by precedence
	Kernels   []string              // printable kernel of each state
}

// Conflict is an unresolved conflict.
type Conflict struct {
	State    int
	Terminal string
	Actions  []Action
}

// Grammar is a context-free grammar; Prods[0] must be the augmented production S' → Start.
type Grammar struct {
	Prods  []Prod
	Levels []Level

	nullable map[string]bool
	first    map[string]map[string]bool
}

// New builds a grammar, adding the augmented production.
func New(start string, prods []Prod, levels []Level) *Grammar {
	g := &Grammar{Levels: levels}
	g.Prods = append([]Prod{{Head: "\x00start'", Body: []Sym{{Name: start}}}}, prods...)
	g.computeFirst()
	return g
}

func (g *Grammar) computeFirst() {
	g.nullable = map[string]bool{}
	g.first = map[string]map[string]bool{}
	for _, p := range g.Prods {
		if g.first[p.Head] == nil {
			g.first[p.Head] = map[string]bool{}
		}
	}
	for changed := true; changed; {
		changed = false
		for _, p := range g.Prods {
			allNull := true
			for _, s := range p.Body {
				if s.Term {
					if !g.first[p.Head][s.Name] {
						g.first[p.Head][s.Name] = true
						changed = true
					}
					allNull = false
					break
				}
				for t := range g.first[s.Name] {
					if !g.first[p.Head][t] {
						g.first[p.Head][t] = true
						changed = true
					}
				}
				if !g.nullable[s.Name] {
					allNull = false
					break
				}
			}
			if allNull && !g.nullable[p.Head] {
				g.nullable[p.Head] = true
				changed = true
			}
		}
	}
}

// firstOf returns FIRST(β a).
func (g *Grammar) firstOf(beta []Sym, a string) map[string]bool {
	out := map[string]bool{}
	for _, s := range beta {
		if s.Term {
			out[s.Name] = true
			return out
		}
		for t := range g.first[s.Name] {
			out[t] = true
		}
		if !g.nullable[s.Name] {
			return out
		}
	}
	out[a] = true
	return out
}

type item struct {
	prod, dot int
	la        string
}

type itemSet []item

func (s itemSet) sort() {
	sort.Slice(s, func(i, j int) bool {
		if s[i].prod != s[j].prod {
			return s[i].prod < s[j].prod
		}
		if s[i].dot != s[j].dot {
			return s[i].dot < s[j].dot
		}
		return s[i].la < s[j].la
	})
}

func (s itemSet) key() string {
	var b strings.Builder
	for _, it := range s {
		fmt.Fprintf(&b, "%d.%d.%s|", it.prod, it.dot, it.la)
	}
	return b.String()
}

func (s itemSet) coreKey() string {
	seen := map[[2]int]bool{}
	var cs [][2]int
	for _, it := range s {
		c := [2]int{it.prod, it.dot}
		if !seen[c] {
			seen[c] = true
			cs = append(cs, c)
		}
	}
	sort.Slice(cs, func(i, j int) bool {
		if cs[i][0] != cs[j][0] {
			return cs[i][0] < cs[j][0]
		}
		return cs[i][1] < cs[j][1]
	})
	return fmt.Sprint(cs)
}

func (g *Grammar) closure(kernel itemSet) itemSet {
	seen := map[item]bool{}
	var out itemSet
	work := append(itemSet{}, kernel...)
	for _, it := range kernel {
		seen[it] = true
	}
	byHead := map[string][]int{}
	for i, p := range g.Prods {
		byHead[p.Head] = append(byHead[p.Head], i)
	}
	for len(work) > 0 {
		it := work[len(work)-1]
		work = work[:len(work)-1]
		out = append(out, it)
		body := g.Prods[it.prod].Body
		if it.dot >= len(body) || body[it.dot].Term {
			continue
		}
		B := body[it.dot].Name
		for la := range g.firstOf(body[it.dot+1:], it.la) {
			for _, pi := range byHead[B] {
				n := item{pi, 0, la}
				if !seen[n] {
					seen[n] = true
					work = append(work, n)
				}
			}
		}
	}
	out.sort()
	return out
}

// Build constructs the LALR(1) table.
func (g *Grammar) Build() *Table {
	start := g.closure(itemSet{{0, 0, End}})
	states := []itemSet{start}
	index := map[string]int{start.key(): 0}
	type edge struct {
		from int
		sym  Sym
		to   int
	}
	var edges []edge
	for i := 0; i < len(states); i++ {
		moves := map[string]itemSet{}
		syms := map[string]Sym{}
		for _, it := range states[i] {
			body := g.Prods[it.prod].Body
			if it.dot < len(body) {
				s := body[it.dot]
				moves[s.key()] = append(moves[s.key()], item{it.prod, it.dot + 1, it.la})
				syms[s.key()] = s
			}
		}
		keys := make([]string, 0, len(moves))
		for k := range moves {
			keys = append(keys, k)
		}
		sort.Strings(keys)
		for _, k := range keys {
			next := g.closure(moves[k])
			nk := next.key()
			j, ok := index[nk]
			if !ok {
				j = len(states)
				index[nk] = j
				states = append(states, next)
			}
			edges = append(edges, edge{i, syms[k], j})
		}
	}
	// merge by core
	coreIdx := map[string]int{}
	merged := []map[item]bool{}
	toMerged := make([]int, len(states))
	for i, s := range states {
		ck := s.coreKey()
		m, ok := coreIdx[ck]
		if !ok {
			m = len(merged)
			coreIdx[ck] = m
			merged = append(merged, map[item]bool{})
		}
		toMerged[i] = m
		for _, it := range s {
			merged[m][it] = true
		}
	}
	t := &Table{G: g, NStates: len(merged)}
	t.Actions = make([]map[string][]Action, len(merged))
	t.Gotos = make([]map[string]int, len(merged))
	t.Kernels = make([]string, len(merged))
	raw := make([]map[string]map[Action]bool, len(merged))
	for i := range merged {
		t.Actions[i] = map[string][]Action{}
		t.Gotos[i] = map[string]int{}
		raw[i] = map[string]map[Action]bool{}
	}
	addAction := func(s int, a string, act Action) {
		if raw[s][a] == nil {
			raw[s][a] = map[Action]bool{}
		}
		raw[s][a][act] = true
	}
	for _, e := range edges {
		f, to := toMerged[e.from], toMerged[e.to]
		if e.sym.Term {
			addAction(f, e.sym.Name, Action{Shift, to})
		} else {
			if old, ok := t.Gotos[f][e.sym.Name]; ok && old != to {
				panic("lrref: inconsistent goto after merging")
			}
			t.Gotos[f][e.sym.Name] = to
		}
	}
	for m, items := range merged {
		var ks []string
		for it := range items {
			p := g.Prods[it.prod]
			if it.dot == len(p.Body) {
				if it.prod == 0 {
					addAction(m, End, Action{Accept, 0})
				} else {
					addAction(m, it.la, Action{Reduce, it.prod})
				}
			}
			if it.dot > 0 || it.prod == 0 {
				ks = append(ks, fmt.Sprintf("%d.%d", it.prod, it.dot))
			}
		}
		sort.Strings(ks)
		t.Kernels[m] = strings.Join(dedup(ks), " ")
	}
	for s := range raw {
		for a, set := range raw[s] {
			acts := make([]Action, 0, len(set))
			for act := range set {
				acts = append(acts, act)
			}
			sort.Slice(acts, func(i, j int) bool {
				if acts[i].Kind != acts[j].Kind {
					return acts[i].Kind < acts[j].Kind
				}
				return acts[i].Arg < acts[j].Arg
			})
			if len(acts) > 1 {
				if w, ok := g.resolve(a, acts); ok {
					acts = []Action{w}
					t.Resolved++
				} else {
					t.Conflicts = append(t.Conflicts, Conflict{s, a, acts})
				}
			}
			t.Actions[s][a] = acts
		}
	}
	sort.Slice(t.Conflicts, func(i, j int) bool {
		if t.Conflicts[i].State != t.Conflicts[j].State {
			return t.Conflicts[i].State < t.Conflicts[j].State
		}
		return t.Conflicts[i].Terminal < t.Conflicts[j].Terminal
	})
	return t
}

func dedup(in []string) []string {
	var out []string
	for i, s := range in {
		if i == 0 || s != in[i-1] {
			out = append(out, s)
		}
	}
	return out
}

// level returns the precedence level of an action on terminal a (-1: none declared).
func (g *Grammar) level(a string, act Action) int {
	switch act.Kind {
	case Shift:
		for i, l := range g.Levels {
			if l.Terms[a] {
				return i
			}
		}
	case Reduce:
		p := g.Prods[act.Arg]
		for _, s := range p.Body {
			if s.Term {
				for i, l := range g.Levels {
					if l.Terms[s.Name] {
						return i
					}
				}
				return -1
			}
		}
		for i, l := range g.Levels {
			if l.Prods[p.String()] {
				return i
			}
		}
	}
	return -1
}

// resolve applies the documented rule: every conflicting action needs a declared precedence (a production takes
// that of its leftmost terminal, or its own handle if it has no terminal); the earliest level wins; within one
// level: left → reduce, right → shift, none → unresolved; two reductions in the winning level are unresolved.
func (g *Grammar) resolve(a string, acts []Action) (Action, bool) {
	best := -1
	var top []Action
	for _, act := range acts {
		if act.Kind == Accept {
			return Action{}, false
		}
		l := g.level(a, act)
		if l < 0 {
			return Action{}, false
		}
		switch {
		case best < 0 || l < best:
			best, top = l, []Action{act}
		case l == best:
			top = append(top, act)
		}
	}
	if len(top) == 1 {
		return top[0], true
	}
	var shifts, reduces []Action
	for _, act := range top {
		if act.Kind == Shift {
			shifts = append(shifts, act)
		} else {
			reduces = append(reduces, act)
		}
	}
	switch g.Levels[best].Assoc {
	case "left":
		if len(reduces) == 1 {
			return reduces[0], true
		}
	case "right":
		if len(shifts) == 1 {
			return shifts[0], true
		}
	}
	return Action{}, false
}

// Parse runs the shift-reduce algorithm on a terminal string and returns the reduction sequence
// (production indices) and whether the string is accepted. The table must be conflict-free in the cells used.
func (t *Table) Parse(input []string) (reductions []int, ok bool, errAt int) {
	stack := []int{0}
	pos := 0
	for steps := 0; steps < 100000; steps++ {
		a := End
		if pos < len(input) {
			a = input[pos]
		}
		acts := t.Actions[stack[len(stack)-1]][a]
		if len(acts) != 1 {
			return reductions, false, pos
		}
		switch act := acts[0]; act.Kind {
		case Shift:
			stack = append(stack, act.Arg)
			pos++
		case Reduce:
			p := t.G.Prods[act.Arg]
			stack = stack[:len(stack)-len(p.Body)]
			next, has := t.Gotos[stack[len(stack)-1]][p.Head]
			if !has {
				return reductions, false, pos
			}
			stack = append(stack, next)
			reductions = append(reductions, act.Arg)
		case Accept:
			return reductions, true, pos
		}
	}
	return reductions, false, pos
}

// NestedKernels reports whether the LALR(1) collection contains two states such that the kernel of one
// (as a set of LR(0) items) is a strict subset of the kernel of the other, and returns such a pair.
func (t *Table) NestedKernels() (bool, string) {
	sets := make([]map[string]bool, len(t.Kernels))
	for i, k := range t.Kernels {
		sets[i] = map[string]bool{}
		for _, it := range strings.Fields(k) {
			sets[i][it] = true
		}
	}
	for i := range sets {
		for j := range sets {
			if i == j || len(sets[i]) == 0 || len(sets[i]) >= len(sets[j]) {
				continue
			}
			sub := true
			for it := range sets[i] {
				if !sets[j][it] {
					sub = false
					break
				}
			}
			if sub {
				return true, fmt.Sprintf("kernel {%s} of state %d is contained in kernel {%s} of state %d", t.Kernels[i], i, t.Kernels[j], j)
			}
		}
	}
	return false, ""
}
