// Package cliref is a reference model of emerge's documented command line: `emerge [flags] FILE_PATH` with the flags
// -out=path, -name=foo, -debug, -help, -version, -verbose, read the way Go's flag package documents flag syntax
// (-flag, --flag, -flag=x, -flag x for non-boolean flags; parsing stops before the first non-flag argument or after
// "--"). It predicts only what the properties speak about: whether the run must end with status 0, whether it is a
// help/version request, and which file / output directory / package name the run is about.
package cliref

import (
	"go/token"
	"strconv"
	"strings"
)

// Outcome is what the model predicts for a command line.
type Outcome struct {
	FlagError bool   // the command line is not well-formed: a message and a non-zero status
	Help      bool   // help requested (-h, -help): status 0, nothing generated
	Version   bool   // version requested: status 0, nothing generated
	File      string // the specification file ("" = none given: an error)
	HasFile   bool
	Out       string // value of -out ("" = current directory)
	Name      string // value of -name ("" = the grammar's own name)
	Debug     bool
	Verbose   bool
}

var boolFlags = map[string]bool{"help": true, "version": true, "debug": true, "verbose": true}
var stringFlags = map[string]bool{"out": true, "name": true}

// Parse reads a command line.
func Parse(args []string) Outcome {
	var o Outcome
	i := 0
	for i < len(args) {
		a := args[i]
		if len(a) < 2 || a[0] != '-' {
			break
		}
		minus := 1
		if a[1] == '-' {
			minus = 2
			if len(a) == 2 {
				i++
				break
			}
		}
		name := a[minus:]
		if name == "" || name[0] == '-' || name[0] == '=' {
			o.FlagError = true
			return o
		}
		i++
		value, hasValue := "", false
		if k := strings.IndexByte(name, '='); k >= 0 {
			name, value, hasValue = name[:k], name[k+1:], true
		}
		switch {
		case boolFlags[name]:
			v := true
			if hasValue {
				b, err := strconv.ParseBool(value)
				if err != nil {
					o.FlagError = true
					return o
				}
				v = b
			}
			switch name {
			case "help":
				o.Help = v
			case "version":
				o.Version = v
			case "debug":
				o.Debug = v
			case "verbose":
				o.Verbose = v
			}
		case stringFlags[name]:
			if !hasValue {
				if i >= len(args) {
					o.FlagError = true
					return o
				}
				value = args[i]
				i++
			}
			if name == "out" {
				o.Out = value
			} else {
				o.Name = value
			}
		case name == "h":
			// the flag package answers an undefined -h / -help with the usage text and "help requested"
			o.Help = true
			return o
		default:
			o.FlagError = true
			return o
		}
	}
	if o.Help {
		o.Version = false
		return o
	}
	if o.Version {
		return o
	}
	// the documented usage has one FILE_PATH; emerge takes the first argument that does not look like a flag
	for _, a := range args[i:] {
		if !strings.HasPrefix(a, "-") {
			o.File, o.HasFile = a, true
			break
		}
	}
	return o
}

// Predeclared are Go's predeclared identifiers: legal as a package name, but emerge may refuse them.
var Predeclared = map[string]bool{}

func init() {
	for _, w := range strings.Fields("any bool byte comparable complex64 complex128 error float32 float64 int int8 int16 int32 int64 rune string uint uint8 uint16 uint32 uint64 uintptr true false iota nil append cap clear close complex copy delete imag len make max min new panic print println real recover") {
		Predeclared[w] = true
	}
}

// NameClass classifies a package name: "usable" (a Go identifier that a package clause accepts), "unusable" (not an
// identifier, a keyword, or the blank identifier), or "predeclared" (legal, but shadowing a predeclared identifier:
// either answer is compatible with the properties).
func NameClass(name string) string {
	switch {
	case !token.IsIdentifier(name) || name == "_":
		return "unusable"
	case Predeclared[name]:
		return "predeclared"
	}
	return "usable"
}
