// Package dfaops explores products of finite automata (explicit-state BFS) to decide language equality.
package dfaops

import (
	"fmt"
	"sort"
	"strings"

	auto "github.com/moorara/algo/automata"
)

// Dead is the sink state every Machine reports when no transition exists.
const Dead = -1

// Machine is a deterministic automaton over runes with integer states.
type Machine interface {
	Start() int
	Step(s int, r rune) int // Dead if none
	Accepting(s int) bool
}

// DFA wraps an implementation DFA (transitions copied out once).
type DFA struct {
	start int
	final map[int]bool
	trans map[int]map[rune]int
	N     int // number of states
}

// FromDFA copies an automata.DFA.
func FromDFA(d *auto.DFA) *DFA {
	m := &DFA{start: int(d.Start), final: map[int]bool{}, trans: map[int]map[rune]int{}}
	for s := range d.Final.All() {
		m.final[int(s)] = true
	}
	states := map[int]bool{int(d.Start): true}
	for tr := range d.Transitions() {
		s, n := int(tr.State), int(tr.Next)
		if m.trans[s] == nil {
			m.trans[s] = map[rune]int{}
		}
		m.trans[s][rune(tr.Symbol)] = n
		states[s], states[n] = true, true
	}
	for s := range m.final {
		states[s] = true
	}
	m.N = len(states)
	return m
}

func (m *DFA) Start() int { return m.start }
func (m *DFA) Step(s int, r rune) int {
	if s == Dead {
		return Dead
	}
	if n, ok := m.trans[s][r]; ok {
		return n
	}
	return Dead
}
func (m *DFA) Accepting(s int) bool { return s != Dead && m.final[s] }

// Symbols returns all symbols that label some transition.
func (m *DFA) Symbols() []rune {
	set := map[rune]bool{}
	for _, t := range m.trans {
		for r := range t {
			set[r] = true
		}
	}
	out := make([]rune, 0, len(set))
	for r := range set {
		out = append(out, r)
	}
	sort.Slice(out, func(i, j int) bool { return out[i] < out[j] })
	return out
}

// States returns all states mentioned (sorted).
func (m *DFA) States() []int {
	set := map[int]bool{m.start: true}
	for s, t := range m.trans {
		set[s] = true
		for _, n := range t {
			set[n] = true
		}
	}
	for s := range m.final {
		set[s] = true
	}
	out := make([]int, 0, len(set))
	for s := range set {
		out = append(out, s)
	}
	sort.Ints(out)
	return out
}

// Finals returns the accepting states (sorted).
func (m *DFA) Finals() []int {
	out := []int{}
	for s := range m.final {
		out = append(out, s)
	}
	sort.Ints(out)
	return out
}

// NFA wraps an implementation NFA and determinises it on the fly.
// Symbol 0 is the library's ε and is followed silently, exactly as automata.NFA.Accept does.
type NFA struct {
	start int
	final map[int]bool
	trans map[int]map[rune][]int
	sets  map[string]int
	elems [][]int
}

// FromNFA copies an automata.NFA.
func FromNFA(n *auto.NFA) *NFA {
	m := &NFA{start: int(n.Start), final: map[int]bool{}, trans: map[int]map[rune][]int{}, sets: map[string]int{}}
	for s := range n.Final.All() {
		m.final[int(s)] = true
	}
	for tr := range n.Transitions() {
		s := int(tr.State)
		if m.trans[s] == nil {
			m.trans[s] = map[rune][]int{}
		}
		for _, t := range tr.Next {
			m.trans[s][rune(tr.Symbol)] = append(m.trans[s][rune(tr.Symbol)], int(t))
		}
	}
	return m
}

func (m *NFA) closure(in []int) []int {
	seen := map[int]bool{}
	stack := append([]int{}, in...)
	for _, s := range in {
		seen[s] = true
	}
	for len(stack) > 0 {
		s := stack[len(stack)-1]
		stack = stack[:len(stack)-1]
		for _, t := range m.trans[s][0] {
			if !seen[t] {
				seen[t] = true
				stack = append(stack, t)
			}
		}
	}
	out := make([]int, 0, len(seen))
	for s := range seen {
		out = append(out, s)
	}
	sort.Ints(out)
	return out
}

func (m *NFA) intern(set []int) int {
	if len(set) == 0 {
		return Dead
	}
	var b strings.Builder
	for _, s := range set {
		fmt.Fprintf(&b, "%d,", s)
	}
	k := b.String()
	if id, ok := m.sets[k]; ok {
		return id
	}
	id := len(m.elems)
	m.sets[k] = id
	m.elems = append(m.elems, set)
	return id
}

func (m *NFA) Start() int { return m.intern(m.closure([]int{m.start})) }
func (m *NFA) Step(s int, r rune) int {
	if s == Dead {
		return Dead
	}
	var next []int
	for _, q := range m.elems[s] {
		next = append(next, m.trans[q][r]...)
	}
	if len(next) == 0 {
		return Dead
	}
	return m.intern(m.closure(next))
}
func (m *NFA) Accepting(s int) bool {
	if s == Dead {
		return false
	}
	for _, q := range m.elems[s] {
		if m.final[q] {
			return true
		}
	}
	return false
}

// Result of a product exploration.
type Result struct {
	States      int
	Transitions int
	Equal       bool
	Witness     []rune // shortest string on which the machines disagree (nil if Equal)
	Verdicts    []bool // acceptance of Witness per machine
	Capped      bool
}

// Compare explores the reachable product of the machines over the alphabet and checks that they agree
// on acceptance in every reachable product state. maxStates bounds the exploration (0 = 1<<20).
func Compare(ms []Machine, alphabet []rune, maxStates int) Result {
	if maxStates == 0 {
		maxStates = 1 << 20
	}
	type node struct {
		st     []int
		parent int
		sym    rune
	}
	key := func(st []int) string {
		var b strings.Builder
		for _, s := range st {
			fmt.Fprintf(&b, "%d,", s)
		}
		return b.String()
	}
	start := make([]int, len(ms))
	for i, m := range ms {
		start[i] = m.Start()
	}
	nodes := []node{{st: start, parent: -1}}
	seen := map[string]bool{key(start): true}
	res := Result{Equal: true}
	witness := func(i int) []rune {
		var w []rune
		for i > 0 {
			w = append(w, nodes[i].sym)
			i = nodes[i].parent
		}
		for a, b := 0, len(w)-1; a < b; a, b = a+1, b-1 {
			w[a], w[b] = w[b], w[a]
		}
		return w
	}
	for i := 0; i < len(nodes); i++ {
		cur := nodes[i]
		acc := make([]bool, len(ms))
		same := true
		for j, m := range ms {
			acc[j] = m.Accepting(cur.st[j])
			if acc[j] != acc[0] {
				same = false
			}
		}
		if !same {
			res.Equal = false
			res.Witness = witness(i)
			if res.Witness == nil {
				res.Witness = []rune{}
			}
			res.Verdicts = acc
			res.States = len(nodes)
			return res
		}
		for _, r := range alphabet {
			nx := make([]int, len(ms))
			alldead := true
			for j, m := range ms {
				nx[j] = m.Step(cur.st[j], r)
				if nx[j] != Dead {
					alldead = false
				}
			}
			res.Transitions++
			if alldead {
				continue
			}
			k := key(nx)
			if !seen[k] {
				if len(nodes) >= maxStates {
					res.Capped = true
					continue
				}
				seen[k] = true
				nodes = append(nodes, node{st: nx, parent: i, sym: r})
			}
		}
	}
	res.States = len(nodes)
	return res
}

// Quote renders a witness string readably.
func Quote(w []rune) string {
	return fmt.Sprintf("%q", string(w))
}
