package regexref

import (
	"fmt"
	"strings"
)

// Expr mirrors `expr = subexpr [ "|" expr ]` (right-nested alternation, flattened).
type Expr struct{ Alts []*Sub }

// Sub mirrors `subexpr = {{ subexpr_item }}`.
type Sub struct{ Items []*Item }

// Item mirrors `subexpr_item = anchor | group | match`.
type Item struct {
	Anchor bool
	Atom   *Atom // match_item
	Group  *Expr // "(" expr ")"
	Q      *Quant
}

// Quant mirrors `quantifier = repetition [ "?" ]`.
type Quant struct {
	Min, Max int // Max < 0: unbounded
	Lazy     bool
	Text     string // "?", "*", "+", "{n}", "{n,}", "{n,m}" (without the lazy modifier)
}

// Atom is a match_item: its source text and the set of characters it denotes.
type Atom struct {
	Text string
	Set  CharSet
}

func (e *Expr) String() string {
	parts := make([]string, len(e.Alts))
	for i, s := range e.Alts {
		parts[i] = s.String()
	}
	return strings.Join(parts, "|")
}

func (s *Sub) String() string {
	var b strings.Builder
	for _, it := range s.Items {
		b.WriteString(it.String())
	}
	return b.String()
}

func (it *Item) String() string {
	var b strings.Builder
	switch {
	case it.Anchor:
		b.WriteString("$")
	case it.Group != nil:
		b.WriteString("(" + it.Group.String() + ")")
	default:
		b.WriteString(it.Atom.Text)
	}
	if it.Q != nil {
		b.WriteString(it.Q.Text)
		if it.Q.Lazy {
			b.WriteString("?")
		}
	}
	return b.String()
}

// Size counts operator nodes: alternations, concatenations, groups and quantifiers.
func (e *Expr) Size() int {
	n := len(e.Alts) - 1
	for _, s := range e.Alts {
		n += len(s.Items) - 1
		for _, it := range s.Items {
			if it.Group != nil {
				n += 1 + it.Group.Size()
			}
			if it.Q != nil {
				n++
			}
		}
	}
	return n
}

// HasNulClass reports whether some atom's set contains rune 0 (the dependency's ε).
func (e *Expr) HasNulClass() bool {
	for _, s := range e.Alts {
		for _, it := range s.Items {
			if it.Atom != nil && it.Atom.Set.Contains(0) {
				return true
			}
			if it.Group != nil && it.Group.HasNulClass() {
				return true
			}
		}
	}
	return false
}

// Lang translates the tree to a core expression. With nulEps, every atom whose set contains rune 0
// additionally matches the empty string (the alternative semantics used to recognise one known finding).
func (e *Expr) Lang(c *Ctx, nulEps bool) *Re {
	alts := make([]*Re, len(e.Alts))
	for i, s := range e.Alts {
		parts := []*Re{}
		for _, it := range s.Items {
			if it.Anchor {
				continue
			}
			var x *Re
			if it.Group != nil {
				x = it.Group.Lang(c, nulEps)
			} else {
				x = c.Sym(it.Atom.Set)
				if nulEps && it.Atom.Set.Contains(0) {
					x = c.Opt(x)
				}
			}
			if it.Q != nil {
				x = c.Repeat(x, it.Q.Min, it.Q.Max)
			}
			parts = append(parts, x)
		}
		alts[i] = c.CatN(parts...)
	}
	return c.Alt(alts...)
}

// MkQuant builds a quantifier from its text.
func MkQuant(text string, lazy bool) *Quant {
	q := &Quant{Text: text, Lazy: lazy}
	switch text {
	case "?":
		q.Min, q.Max = 0, 1
	case "*":
		q.Min, q.Max = 0, -1
	case "+":
		q.Min, q.Max = 1, -1
	default:
		var n, m int
		if k, _ := fmt.Sscanf(text, "{%d,%d}", &n, &m); k == 2 {
			q.Min, q.Max = n, m
		} else if strings.HasSuffix(text, ",}") {
			fmt.Sscanf(text, "{%d,}", &n)
			q.Min, q.Max = n, -1
		} else {
			fmt.Sscanf(text, "{%d}", &n)
			q.Min, q.Max = n, n
		}
	}
	return q
}

// Class tables: the documented classes over the documented (ASCII) universe.
var (
	setSpaceS = Runes(' ', '\t', '\n', '\r', '\f')
	setDigit  = NewSet(Range{'0', '9'})
	setWord   = NewSet(Range{'0', '9'}, Range{'A', 'Z'}, Range{'_', '_'}, Range{'a', 'z'})

	// CharClasses maps `\s` … `\W`.
	CharClasses = map[string]CharSet{
		`\s`: setSpaceS, `\S`: setSpaceS.NegASCII(),
		`\d`: setDigit, `\D`: setDigit.NegASCII(),
		`\w`: setWord, `\W`: setWord.NegASCII(),
	}

	// ASCIIClasses maps `[:name:]`.
	ASCIIClasses = map[string]CharSet{
		"[:blank:]":  Runes(' ', '\t'),
		"[:space:]":  Runes(' ', '\t', '\n', '\r', '\f', '\v'),
		"[:digit:]":  setDigit,
		"[:xdigit:]": NewSet(Range{'0', '9'}, Range{'A', 'F'}, Range{'a', 'f'}),
		"[:upper:]":  NewSet(Range{'A', 'Z'}),
		"[:lower:]":  NewSet(Range{'a', 'z'}),
		"[:alpha:]":  NewSet(Range{'A', 'Z'}, Range{'a', 'z'}),
		"[:alnum:]":  NewSet(Range{'0', '9'}, Range{'A', 'Z'}, Range{'a', 'z'}),
		"[:word:]":   setWord,
		"[:ascii:]":  ASCII,
	}

	// ASCIIClassNames in documented order.
	ASCIIClassNames = []string{"[:blank:]", "[:space:]", "[:digit:]", "[:xdigit:]", "[:upper:]", "[:lower:]", "[:alpha:]", "[:alnum:]", "[:word:]", "[:ascii:]"}

	// EscapedChars are the characters that must be written with a backslash.
	EscapedChars = []rune{'\\', '|', '.', '?', '*', '+', '(', ')', '[', ']', '{', '}', '$'}

	// UnicodeCategories in the order of the documented grammar.
	UnicodeCategories = []string{"Math", "Emoji", "Latin", "Greek", "Cyrillic", "Han", "Persian",
		"Letter", "Lu", "Ll", "Lt", "Lm", "Lo", "L", "Mark", "Mn", "Mc", "Me", "M",
		"Number", "Nd", "Nl", "No", "N", "Punctuation", "Pc", "Pd", "Ps", "Pe", "Pi", "Pf", "Po", "P",
		"Separator", "Zs", "Zl", "Zp", "Z", "Symbol", "Sm", "Sc", "Sk", "So", "S"}
)

// IsEscaped reports whether r is one of the characters that need a backslash.
func IsEscaped(r rune) bool {
	for _, e := range EscapedChars {
		if e == r {
			return true
		}
	}
	return false
}

// Lit returns the atom for one literal character, written the canonical way.
func Lit(r rune) *Atom {
	switch {
	case IsEscaped(r):
		return &Atom{Text: `\` + string(r), Set: Runes(r)}
	case r >= 0x20 && r <= 0x7E:
		return &Atom{Text: string(r), Set: Runes(r)}
	case r <= 0xFF:
		return &Atom{Text: fmt.Sprintf(`\x%02X`, r), Set: Runes(r)}
	case r <= 0xFFFF:
		return &Atom{Text: fmt.Sprintf(`\x%04X`, r), Set: Runes(r)}
	default:
		return &Atom{Text: fmt.Sprintf(`\x%06X`, r), Set: Runes(r)}
	}
}
