package regexref

import (
	"fmt"
)

// Parse is a recursive-descent reading of the documented pattern grammar (alternatives tried in documented
// order). It is used for patterns the harness receives as text (predefined patterns, curated lists);
// enumerated patterns are built as trees and never go through it. The whole text must be consumed.
func Parse(src string) (*Expr, error) {
	p := &rparser{in: []rune(src)}
	if p.peek() == '^' {
		p.pos++
	}
	e, ok := p.expr()
	if !ok {
		return nil, fmt.Errorf("not a sentence of the pattern grammar: %q", src)
	}
	if p.pos != len(p.in) {
		return nil, fmt.Errorf("unconsumed suffix at %d in %q", p.pos, src)
	}
	if p.err != nil {
		return nil, p.err
	}
	return e, nil
}

type rparser struct {
	in  []rune
	pos int
	err error
}

func (p *rparser) peek() rune {
	if p.pos < len(p.in) {
		return p.in[p.pos]
	}
	return -1
}

func (p *rparser) lit(s string) bool {
	rs := []rune(s)
	if p.pos+len(rs) > len(p.in) {
		return false
	}
	for i, r := range rs {
		if p.in[p.pos+i] != r {
			return false
		}
	}
	p.pos += len(rs)
	return true
}

func (p *rparser) expr() (*Expr, bool) {
	s, ok := p.sub()
	if !ok {
		return nil, false
	}
	e := &Expr{Alts: []*Sub{s}}
	save := p.pos
	if p.peek() == '|' {
		p.pos++
		if rest, ok := p.expr(); ok {
			e.Alts = append(e.Alts, rest.Alts...)
		} else {
			p.pos = save
		}
	}
	return e, true
}

func (p *rparser) sub() (*Sub, bool) {
	s := &Sub{}
	for {
		it, ok := p.item()
		if !ok {
			break
		}
		s.Items = append(s.Items, it)
	}
	return s, len(s.Items) > 0
}

func (p *rparser) item() (*Item, bool) {
	save := p.pos
	if p.peek() == '$' {
		p.pos++
		return &Item{Anchor: true}, true
	}
	if p.peek() == '(' {
		p.pos++
		if e, ok := p.expr(); ok && p.peek() == ')' {
			p.pos++
			return &Item{Group: e, Q: p.quant()}, true
		}
		p.pos = save
	}
	if a, ok := p.matchItem(); ok {
		return &Item{Atom: a, Q: p.quant()}, true
	}
	p.pos = save
	return nil, false
}

func (p *rparser) num() (int, bool) {
	start := p.pos
	n := 0
	for p.peek() >= '0' && p.peek() <= '9' {
		n = n*10 + int(p.peek()-'0')
		p.pos++
	}
	return n, p.pos > start
}

func (p *rparser) quant() *Quant {
	save := p.pos
	var q *Quant
	switch p.peek() {
	case '?', '*', '+':
		q = MkQuant(string(p.peek()), false)
		p.pos++
	case '{':
		p.pos++
		n, ok := p.num()
		if !ok {
			p.pos = save
			return nil
		}
		q = &Quant{Min: n, Max: n}
		if p.peek() == ',' {
			p.pos++
			if m, ok := p.num(); ok {
				q.Max = m
			} else {
				q.Max = -1
			}
		}
		if p.peek() != '}' {
			p.pos = save
			return nil
		}
		p.pos++
		q.Text = string(p.in[save:p.pos])
		if q.Max >= 0 && q.Min > q.Max {
			p.err = fmt.Errorf("invalid repetition range {%d,%d}", q.Min, q.Max)
		}
	default:
		return nil
	}
	if p.peek() == '?' {
		p.pos++
		q.Lazy = true
	}
	return q
}

func hexVal(r rune) (int, bool) {
	switch {
	case r >= '0' && r <= '9':
		return int(r - '0'), true
	case r >= 'A' && r <= 'F':
		return int(r-'A') + 10, true
	}
	return 0, false
}

// hexChar parses "\x" followed by min..max hex digits (greedy).
func (p *rparser) hexChar(min, max int) (rune, bool) {
	save := p.pos
	if !p.lit(`\x`) {
		return 0, false
	}
	v, n := 0, 0
	for n < max {
		d, ok := hexVal(p.peek())
		if !ok {
			break
		}
		v = v<<4 + d
		n++
		p.pos++
	}
	if n < min {
		p.pos = save
		return 0, false
	}
	return rune(v), true
}

// singleChar --> unicode_char | ascii_char | escaped_char | unescaped_char
func (p *rparser) singleChar() (rune, bool) {
	if r, ok := p.hexChar(4, 8); ok {
		return r, true
	}
	if r, ok := p.hexChar(2, 2); ok {
		return r, true
	}
	if p.peek() == '\\' && p.pos+1 < len(p.in) && IsEscaped(p.in[p.pos+1]) {
		r := p.in[p.pos+1]
		p.pos += 2
		return r, true
	}
	if r := p.peek(); r >= 0x20 && r <= 0x7E && !IsEscaped(r) {
		p.pos++
		return r, true
	}
	return 0, false
}

func (p *rparser) charClass() (CharSet, bool) {
	for _, c := range []string{`\s`, `\S`, `\d`, `\D`, `\w`, `\W`} {
		if p.lit(c) {
			return CharClasses[c], true
		}
	}
	return nil, false
}

func (p *rparser) asciiClass() (CharSet, bool) {
	for _, c := range ASCIIClassNames {
		if p.lit(c) {
			return ASCIIClasses[c], true
		}
	}
	return nil, false
}

// ASCIIBacked are the categories with a documented-by-table meaning (ASCII letters).
var ASCIIBacked = map[string]CharSet{
	"Letter": NewSet(Range{'A', 'Z'}, Range{'a', 'z'}), "L": NewSet(Range{'A', 'Z'}, Range{'a', 'z'}),
	"Lu": NewSet(Range{'A', 'Z'}), "Ll": NewSet(Range{'a', 'z'}),
}

// unicodeClassSet recognises \p{X}/\P{X} for the ASCII-backed categories and returns the set.
func (p *rparser) unicodeClassSet() (CharSet, bool) {
	save := p.pos
	neg := false
	switch {
	case p.lit(`\p{`):
	case p.lit(`\P{`):
		neg = true
	default:
		return nil, false
	}
	for _, name := range []string{"Letter", "Lu", "Ll", "L"} {
		s := p.pos
		if p.lit(name) && p.peek() == '}' {
			p.pos++
			if neg {
				return ASCIIBacked[name].NegASCII(), true
			}
			return ASCIIBacked[name], true
		}
		p.pos = s
	}
	p.pos = save
	return nil, false
}

// unicodeClass recognises \p{..}/\P{..}; its meaning is outside the reference (nil set, flagged by the caller).
func (p *rparser) unicodeClass() bool {
	save := p.pos
	if !p.lit(`\p`) && !p.lit(`\P`) {
		return false
	}
	if p.peek() != '{' {
		p.pos = save
		return false
	}
	p.pos++
	// implementation order: "Letter" first, then as documented; longest-first is irrelevant because "}" must follow
	for _, c := range append([]string{"Letter"}, UnicodeCategories...) {
		s := p.pos
		if p.lit(c) && p.peek() == '}' {
			p.pos++
			return true
		}
		p.pos = s
	}
	p.pos = save
	return false
}

// charInRange --> unicode_char | ascii_char | char
func (p *rparser) charInRange() (rune, bool) {
	if r, ok := p.hexChar(4, 8); ok {
		return r, true
	}
	if r, ok := p.hexChar(2, 2); ok {
		return r, true
	}
	if r := p.peek(); r >= 0x20 && r <= 0x7E {
		p.pos++
		return r, true
	}
	return 0, false
}

func (p *rparser) groupItem() (CharSet, bool) {
	save := p.pos
	if s, ok := p.unicodeClassSet(); ok {
		return s, true
	}
	if p.unicodeClass() {
		p.err = fmt.Errorf("unicode class outside the reference semantics")
		return nil, true
	}
	if s, ok := p.asciiClass(); ok {
		return s, true
	}
	if s, ok := p.charClass(); ok {
		return s, true
	}
	if lo, ok := p.charInRange(); ok && p.peek() == '-' {
		p.pos++
		if hi, ok := p.charInRange(); ok {
			if lo > hi {
				p.err = fmt.Errorf("invalid character range %s-%s", string(lo), string(hi))
			}
			return NewSet(Range{lo, hi}), true
		}
	}
	p.pos = save
	if r, ok := p.singleChar(); ok {
		return Runes(r), true
	}
	return nil, false
}

func (p *rparser) matchItem() (*Atom, bool) {
	start := p.pos
	mk := func(s CharSet) (*Atom, bool) {
		return &Atom{Text: string(p.in[start:p.pos]), Set: s}, true
	}
	if p.peek() == '.' {
		p.pos++
		return mk(ASCII)
	}
	if r, ok := p.singleChar(); ok {
		return mk(Runes(r))
	}
	if s, ok := p.charClass(); ok {
		return mk(s)
	}
	if s, ok := p.asciiClass(); ok {
		return mk(s)
	}
	if s, ok := p.unicodeClassSet(); ok {
		return mk(s)
	}
	if p.unicodeClass() {
		p.err = fmt.Errorf("unicode class outside the reference semantics")
		return mk(nil)
	}
	if p.peek() == '[' {
		p.pos++
		neg := false
		if p.peek() == '^' {
			neg = true
			p.pos++
		}
		var set CharSet
		n := 0
		for {
			s, ok := p.groupItem()
			if !ok {
				break
			}
			set = set.Union(s)
			n++
		}
		if n > 0 && p.peek() == ']' {
			p.pos++
			if neg {
				set = set.NegASCII()
			}
			return mk(set)
		}
		p.pos = start
	}
	return nil, false
}
