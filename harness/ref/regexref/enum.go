package regexref

// Pools fixes the alphabet of an enumeration of pattern trees.
type Pools struct {
	Atoms  []*Atom
	Quants []*Quant
}

// Trees returns every pattern tree with exactly 0..maxSize operator nodes (alternation, concatenation, group,
// quantifier each count 1) over the pools, grouped by size, without duplicates (unique decomposition:
// expr = first alternative + rest, subexpr = first item + rest).
func Trees(p Pools, maxSize int) [][]*Expr {
	items := make([][]*Item, maxSize+1)
	subs := make([][]*Sub, maxSize+1)
	exprs := make([][]*Expr, maxSize+1)
	for n := 0; n <= maxSize; n++ {
		// items of size n
		if n == 0 {
			for _, a := range p.Atoms {
				items[0] = append(items[0], &Item{Atom: a})
			}
		}
		if n == 1 {
			for _, a := range p.Atoms {
				for _, q := range p.Quants {
					items[1] = append(items[1], &Item{Atom: a, Q: q})
				}
			}
		}
		if n >= 1 {
			for _, e := range exprs[n-1] {
				items[n] = append(items[n], &Item{Group: e})
			}
		}
		if n >= 2 {
			for _, e := range exprs[n-2] {
				for _, q := range p.Quants {
					items[n] = append(items[n], &Item{Group: e, Q: q})
				}
			}
		}
		// subs of size n
		for _, it := range items[n] {
			subs[n] = append(subs[n], &Sub{Items: []*Item{it}})
		}
		for i := 0; i <= n-1; i++ {
			for _, it := range items[i] {
				for _, rest := range subs[n-1-i] {
					subs[n] = append(subs[n], &Sub{Items: append([]*Item{it}, rest.Items...)})
				}
			}
		}
		// exprs of size n
		for _, s := range subs[n] {
			exprs[n] = append(exprs[n], &Expr{Alts: []*Sub{s}})
		}
		for i := 0; i <= n-1; i++ {
			for _, s := range subs[i] {
				for _, rest := range exprs[n-1-i] {
					exprs[n] = append(exprs[n], &Expr{Alts: append([]*Sub{s}, rest.Alts...)})
				}
			}
		}
	}
	return exprs
}

// AllQuants lists every documented quantifier form (plain and lazy) with small bounds.
func AllQuants() []*Quant {
	var out []*Quant
	for _, t := range []string{"?", "*", "+", "{0}", "{1}", "{2}", "{3}", "{0,}", "{1,}", "{2,}", "{0,0}", "{0,1}", "{0,2}", "{1,1}", "{1,2}", "{1,3}", "{2,2}", "{2,3}", "{0,3}"} {
		out = append(out, MkQuant(t, false), MkQuant(t, true))
	}
	return out
}

// GroupAtom builds a bracket-group atom from item texts and their sets.
func GroupAtom(neg bool, items ...*Atom) *Atom {
	text := "["
	if neg {
		text += "^"
	}
	var set CharSet
	for _, it := range items {
		text += it.Text
		set = set.Union(it.Set)
	}
	text += "]"
	if neg {
		set = set.NegASCII()
	}
	return &Atom{Text: text, Set: set}
}

// RangeAtom is the group item lo-hi (written with canonical literals).
func RangeAtom(lo, hi rune) *Atom {
	return &Atom{Text: Lit(lo).Text + "-" + Lit(hi).Text, Set: NewSet(Range{lo, hi})}
}

// ClassAtom returns the atom for a `\d`-style or `[:name:]`-style class.
func ClassAtom(name string) *Atom {
	if s, ok := CharClasses[name]; ok {
		return &Atom{Text: name, Set: s}
	}
	return &Atom{Text: name, Set: ASCIIClasses[name]}
}

// Dot is the any-character atom.
func Dot() *Atom { return &Atom{Text: ".", Set: ASCII} }
