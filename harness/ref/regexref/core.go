// Package regexref is the reference model of emerge's documented pattern language:
// a syntax tree mirroring the documented grammar, a canonical printer, a parser for the unambiguous forms,
// and a matcher based on Brzozowski derivatives (deliberately unrelated to the Thompson / followpos constructions).
package regexref

import (
	"fmt"
	"sort"
	"strings"
)

// Range is an inclusive rune range.
type Range struct{ Lo, Hi rune }

// CharSet is a normalised (sorted, non-overlapping, non-adjacent) list of ranges.
type CharSet []Range

// NewSet builds a normalised set.
func NewSet(rs ...Range) CharSet {
	var in []Range
	for _, r := range rs {
		if r.Lo <= r.Hi {
			in = append(in, r)
		}
	}
	sort.Slice(in, func(i, j int) bool { return in[i].Lo < in[j].Lo })
	var out CharSet
	for _, r := range in {
		if n := len(out); n > 0 && r.Lo <= out[n-1].Hi+1 {
			if r.Hi > out[n-1].Hi {
				out[n-1].Hi = r.Hi
			}
		} else {
			out = append(out, r)
		}
	}
	return out
}

// Runes builds a set from single runes.
func Runes(rs ...rune) CharSet {
	in := make([]Range, len(rs))
	for i, r := range rs {
		in[i] = Range{r, r}
	}
	return NewSet(in...)
}

func (s CharSet) Contains(r rune) bool {
	for _, g := range s {
		if g.Lo <= r && r <= g.Hi {
			return true
		}
	}
	return false
}

func (s CharSet) Union(t CharSet) CharSet {
	return NewSet(append(append([]Range{}, s...), t...)...)
}

// NegASCII is the complement relative to the documented universe of negation: 7-bit ASCII (0x00-0x7F).
func (s CharSet) NegASCII() CharSet {
	var out []Range
	lo := rune(0)
	for _, g := range s {
		if g.Lo > 0x7F {
			break
		}
		if g.Lo > lo {
			out = append(out, Range{lo, g.Lo - 1})
		}
		lo = g.Hi + 1
	}
	if lo <= 0x7F {
		out = append(out, Range{lo, 0x7F})
	}
	return NewSet(out...)
}

func (s CharSet) Key() string {
	var b strings.Builder
	for _, g := range s {
		fmt.Fprintf(&b, "%x-%x,", g.Lo, g.Hi)
	}
	return b.String()
}

// ASCII is the full 7-bit set.
var ASCII = NewSet(Range{0, 0x7F})

// ---------------------------------------------------------------------------------------------
// Core regular expressions with hash-consing and derivatives.

type kind int

const (
	kVoid kind = iota
	kEps
	kSym
	kCat
	kAlt
	kStar
)

// Re is an interned core regular expression.
type Re struct {
	id   int
	kind kind
	set  CharSet
	a, b *Re   // Cat
	alts []*Re // Alt (sorted by id, ≥2)
	null bool
}

// Ctx interns expressions and memoises derivatives.
type Ctx struct {
	byKey map[string]*Re
	all   []*Re
	deriv map[[2]int]*Re // (re id, class id) -> derivative
	Void  *Re
	Eps   *Re
}

func NewCtx() *Ctx {
	c := &Ctx{byKey: map[string]*Re{}, deriv: map[[2]int]*Re{}}
	c.Void = c.intern("V", &Re{kind: kVoid})
	c.Eps = c.intern("E", &Re{kind: kEps, null: true})
	return c
}

func (c *Ctx) intern(key string, r *Re) *Re {
	if e, ok := c.byKey[key]; ok {
		return e
	}
	r.id = len(c.all)
	c.all = append(c.all, r)
	c.byKey[key] = r
	return r
}

func (c *Ctx) Sym(s CharSet) *Re {
	if len(s) == 0 {
		return c.Void
	}
	return c.intern("S"+s.Key(), &Re{kind: kSym, set: s})
}

func (c *Ctx) Cat(a, b *Re) *Re {
	switch {
	case a.kind == kVoid || b.kind == kVoid:
		return c.Void
	case a.kind == kEps:
		return b
	case b.kind == kEps:
		return a
	}
	// right-associate: (x y) z => x (y z)
	if a.kind == kCat {
		return c.Cat(a.a, c.Cat(a.b, b))
	}
	return c.intern(fmt.Sprintf("C%d.%d", a.id, b.id), &Re{kind: kCat, a: a, b: b, null: a.null && b.null})
}

func (c *Ctx) CatN(xs ...*Re) *Re {
	r := c.Eps
	for i := len(xs) - 1; i >= 0; i-- {
		r = c.Cat(xs[i], r)
	}
	return r
}

func (c *Ctx) Alt(xs ...*Re) *Re {
	set := map[int]*Re{}
	var add func(x *Re)
	add = func(x *Re) {
		switch x.kind {
		case kVoid:
		case kAlt:
			for _, y := range x.alts {
				add(y)
			}
		default:
			set[x.id] = x
		}
	}
	for _, x := range xs {
		add(x)
	}
	if len(set) == 0 {
		return c.Void
	}
	ids := make([]int, 0, len(set))
	for id := range set {
		ids = append(ids, id)
	}
	sort.Ints(ids)
	if len(ids) == 1 {
		return set[ids[0]]
	}
	var b strings.Builder
	b.WriteString("A")
	alts := make([]*Re, len(ids))
	null := false
	for i, id := range ids {
		fmt.Fprintf(&b, "%d.", id)
		alts[i] = set[id]
		null = null || set[id].null
	}
	return c.intern(b.String(), &Re{kind: kAlt, alts: alts, null: null})
}

func (c *Ctx) Star(x *Re) *Re {
	switch x.kind {
	case kVoid, kEps:
		return c.Eps
	case kStar:
		return x
	}
	return c.intern(fmt.Sprintf("K%d", x.id), &Re{kind: kStar, a: x, null: true})
}

// Opt is x?.
func (c *Ctx) Opt(x *Re) *Re { return c.Alt(c.Eps, x) }

// Repeat is x{min,max}; max < 0 means unbounded.
func (c *Ctx) Repeat(x *Re, min, max int) *Re {
	parts := []*Re{}
	for i := 0; i < min; i++ {
		parts = append(parts, x)
	}
	if max < 0 {
		parts = append(parts, c.Star(x))
	} else {
		for i := min; i < max; i++ {
			parts = append(parts, c.Opt(x))
		}
	}
	return c.CatN(parts...)
}

// D is the derivative of r with respect to rune ch.
func (c *Ctx) D(r *Re, ch rune) *Re {
	switch r.kind {
	case kVoid, kEps:
		return c.Void
	case kSym:
		if r.set.Contains(ch) {
			return c.Eps
		}
		return c.Void
	case kCat:
		d := c.Cat(c.D(r.a, ch), r.b)
		if r.a.null {
			return c.Alt(d, c.D(r.b, ch))
		}
		return d
	case kAlt:
		ds := make([]*Re, len(r.alts))
		for i, x := range r.alts {
			ds[i] = c.D(x, ch)
		}
		return c.Alt(ds...)
	case kStar:
		return c.Cat(c.D(r.a, ch), r)
	}
	panic("unreachable")
}

// Machine adapts an expression to dfaops.Machine (states are interned expression ids; Void = dead).
type Machine struct {
	C     *Ctx
	Root  *Re
	cache map[[2]int32]int
}

func (c *Ctx) Machine(r *Re) *Machine {
	return &Machine{C: c, Root: r, cache: map[[2]int32]int{}}
}

func (m *Machine) Start() int {
	if m.Root.kind == kVoid {
		return -1
	}
	return m.Root.id
}

func (m *Machine) Step(s int, ch rune) int {
	if s < 0 {
		return -1
	}
	k := [2]int32{int32(s), int32(ch)}
	if v, ok := m.cache[k]; ok {
		return v
	}
	d := m.C.D(m.C.all[s], ch)
	v := d.id
	if d.kind == kVoid {
		v = -1
	}
	m.cache[k] = v
	return v
}

func (m *Machine) Accepting(s int) bool { return s >= 0 && m.C.all[s].null }

// Match decides membership of one string.
func (c *Ctx) Match(r *Re, s []rune) bool {
	for _, ch := range s {
		r = c.D(r, ch)
		if r.kind == kVoid {
			return false
		}
	}
	return r.null
}

// Sets returns every character set occurring in r (for building exploration alphabets).
func (c *Ctx) Sets(r *Re, out map[string]CharSet) {
	switch r.kind {
	case kSym:
		out[r.set.Key()] = r.set
	case kCat:
		c.Sets(r.a, out)
		c.Sets(r.b, out)
	case kAlt:
		for _, x := range r.alts {
			c.Sets(x, out)
		}
	case kStar:
		c.Sets(r.a, out)
	}
}
