// Package bracketref enumerates every derivation of a bracket group "[...]" in the documented pattern grammar
// (docs/5-definitions.md) and what each derivation denotes:
//
//	char_group      = "[" [ "^" ] {{ char_group_item }} "]"
//	char_group_item = unicode_char_class | ascii_char_class | char_class | char_range | single_char
//	char_range      = char_in_range "-" char_in_range
//	char_in_range   = unicode_char | ascii_char | char                      (char: any character)
//	single_char     = unicode_char | ascii_char | escaped_char | unescaped_char
//
// The grammar is ambiguous as a context-free grammar; a bracket group is in an "unambiguous form" when all of its
// derivations denote the same set of characters. Only then does a check demand that set.
package bracketref

import (
	"sort"
	"strings"

	"github.com/gardenbed/emerge/verif/ref/regexref"
)

// Result describes the derivations of one pattern that consists of exactly one bracket group.
type Result struct {
	Derivations int                // number of derivations of the whole text
	Invalid     int                // derivations that contain a descending range
	Sets        []regexref.CharSet // the distinct denotations of the valid derivations
	BadRange    string             // text of a descending range of some invalid derivation
	BadRanges   []string           // every descending range met, as written and with its end points decoded (lo-hi)
	Negated     bool
}

// Unambiguous reports whether every derivation is valid and all denote the same set.
func (r Result) Unambiguous() bool { return r.Derivations > 0 && r.Invalid == 0 && len(r.Sets) == 1 }

type item struct {
	set regexref.CharSet
	bad string // descending range text
	n   int    // runes consumed
}

func hex(r rune) (int, bool) {
	switch {
	case r >= '0' && r <= '9':
		return int(r - '0'), true
	case r >= 'a' && r <= 'f':
		return int(r-'a') + 10, true
	case r >= 'A' && r <= 'F':
		return int(r-'A') + 10, true
	}
	return 0, false
}

// hexChars returns the ways to read \xH.. at in[i:] as ascii_char (2 digits) or unicode_char (4 to 8 digits). A run of
// exactly 2 or exactly 4 hexadecimal digits (followed by something else) is read in one way - as every reader of the
// documentation reads it - although the context-free grammar would also allow `\x03` followed by the characters `B2`;
// a run of 3 digits is 2 digits and a character; a longer run can be cut in several places and all of them count.
func hexChars(in []rune, i int) (out []struct {
	r rune
	n int
}) {
	if i+1 >= len(in) || in[i] != '\\' || in[i+1] != 'x' {
		return nil
	}
	d := 0
	for d < 8 && i+2+d < len(in) {
		if _, ok := hex(in[i+2+d]); !ok {
			break
		}
		d++
	}
	val := func(n int) rune {
		v := 0
		for k := 0; k < n; k++ {
			h, _ := hex(in[i+2+k])
			v = v*16 + h
		}
		return rune(v)
	}
	add := func(n int) {
		if v := val(n); v <= 0x10FFFF {
			out = append(out, struct {
				r rune
				n int
			}{v, 2 + n})
		}
	}
	switch {
	case d < 2:
	case d < 4:
		add(2)
	case d == 4:
		add(4)
	default:
		for n := 4; n <= d; n++ {
			add(n)
		}
	}
	return out
}

// inRange returns every way to read a char_in_range at in[i:].
func inRange(in []rune, i int) (out []struct {
	r rune
	n int
}) {
	if i >= len(in) {
		return nil
	}
	out = append(out, hexChars(in, i)...)
	out = append(out, struct {
		r rune
		n int
	}{in[i], 1})
	return out
}

func lit(in []rune, i int, s string) bool {
	rs := []rune(s)
	if i+len(rs) > len(in) {
		return false
	}
	for k, r := range rs {
		if in[i+k] != r {
			return false
		}
	}
	return true
}

// items returns every char_group_item that can start at in[i:].
func items(in []rune, i int) (out []item) {
	for name, set := range regexref.CharClasses {
		if lit(in, i, name) {
			out = append(out, item{set: set, n: len([]rune(name))})
		}
	}
	for _, name := range regexref.ASCIIClassNames {
		if lit(in, i, name) {
			out = append(out, item{set: regexref.ASCIIClasses[name], n: len([]rune(name))})
		}
	}
	for _, lo := range inRange(in, i) {
		if j := i + lo.n; j < len(in) && in[j] == '-' {
			for _, hi := range inRange(in, j+1) {
				it := item{n: lo.n + 1 + hi.n}
				if lo.r > hi.r {
					it.bad = string(in[i:i+it.n]) + "\x00" + string(lo.r) + "-" + string(hi.r)
				} else {
					it.set = regexref.NewSet(regexref.Range{Lo: lo.r, Hi: hi.r})
				}
				out = append(out, it)
			}
		}
	}
	for _, h := range hexChars(in, i) {
		out = append(out, item{set: regexref.Runes(h.r), n: h.n})
	}
	if in[i] == '\\' && i+1 < len(in) && regexref.IsEscaped(in[i+1]) {
		out = append(out, item{set: regexref.Runes(in[i+1]), n: 2})
	}
	if !regexref.IsEscaped(in[i]) {
		out = append(out, item{set: regexref.Runes(in[i]), n: 1})
	}
	return out
}

// Analyse enumerates the derivations of pattern as exactly one bracket group. Unicode categories (\p{..}) are outside
// this reference: a text containing `\p` or `\P` yields no result (Derivations = -1).
func Analyse(pattern string) Result {
	in := []rune(pattern)
	var res Result
	if len(in) < 3 || in[0] != '[' || in[len(in)-1] != ']' {
		return res
	}
	for i := 0; i+1 < len(in); i++ {
		if in[i] == '\\' && (in[i+1] == 'p' || in[i+1] == 'P') {
			res.Derivations = -1
			return res
		}
	}
	body := in[1 : len(in)-1]
	if body[0] == '^' {
		res.Negated = true
		body = body[1:]
		if len(body) == 0 {
			return res // "[^]": one or more items are required after the negation sign
		}
	}
	seen := map[string]bool{}
	var walk func(i int, acc regexref.CharSet, bad string)
	walk = func(i int, acc regexref.CharSet, bad string) {
		if i == len(body) {
			res.Derivations++
			if bad != "" {
				res.Invalid++
				for _, f := range strings.Split(bad, "\x00") {
					res.BadRange = f
					dup := false
					for _, g := range res.BadRanges {
						dup = dup || g == f
					}
					if !dup {
						res.BadRanges = append(res.BadRanges, f)
					}
				}
				return
			}
			set := acc
			if res.Negated {
				set = set.NegASCII()
			}
			if k := set.Key(); !seen[k] {
				seen[k] = true
				res.Sets = append(res.Sets, set)
			}
			return
		}
		its := items(body, i)
		sort.SliceStable(its, func(a, b int) bool { return its[a].n > its[b].n })
		for _, it := range its {
			b := bad
			if it.bad != "" {
				b = it.bad
			}
			walk(i+it.n, acc.Union(it.set), b)
		}
	}
	walk(0, nil, "")
	return res
}
