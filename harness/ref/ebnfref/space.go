package ebnfref

import "fmt"

// SpecSpace enumerates the syntactically valid specifications shared by C11 and C18 (and mutated by C20):
// every right-hand side up to a node bound, every sequence of declarations of every kind up to a length bound
// (with the optional semicolons present / absent / alternating), bracket nestings up to depth 4, and the
// specifications without declarations. Texts are canonical prints; a variant the reference itself does not read
// back as the same declaration list (a directive that swallows the next token name) is not produced.
func SpecSpace(quick bool, yield func(sp *Spec, family string)) {
	a, tk, x := &Str{Lexeme: "a"}, &Tok{Name: "TK"}, &NT{Name: "x"}
	maxNodes, maxDecls := 4, 3
	if !quick {
		maxNodes, maxDecls = 5, 4
	}
	// 1. right-hand sides
	for n, level := range Exprs([]Expr{a, tk, x}, maxNodes) {
		for _, e := range level {
			yield(&Spec{Name: "g", Decls: []Decl{
				&TokenDecl{Name: "TK", Kind: DefString, Value: "t"},
				&Rule{LHS: "x", RHS: &Str{Lexeme: "b"}},
				&Rule{LHS: "start", RHS: e},
			}}, fmt.Sprintf("rhs_nodes%d", n))
		}
	}
	// 1b. trailing and inner empty alternatives after multi-item alternatives, in every bracket and at top level
	b := &Str{Lexeme: "b"}
	for _, body := range []Expr{
		&Alt{Ops: []Expr{&Cat{Ops: []Expr{a, b}}}, TrailingEmpty: true},
		&Alt{Ops: []Expr{a, &Cat{Ops: []Expr{b, x}}}, TrailingEmpty: true},
		&Alt{Ops: []Expr{&Cat{Ops: []Expr{a, b, x}}, tk}, TrailingEmpty: true},
		&Alt{Ops: []Expr{&Cat{Ops: []Expr{a, b}}, &Eps{}, tk}},
		&Alt{Ops: []Expr{&Group{&Alt{Ops: []Expr{a, b}}}}, TrailingEmpty: true},
		&Alt{Ops: []Expr{&Cat{Ops: []Expr{&Group{&Alt{Ops: []Expr{a, b}}}, x}}}, TrailingEmpty: true},
	} {
		for _, w := range []func(Expr) Expr{
			func(e Expr) Expr { return e },
			func(e Expr) Expr { return &Cat{Ops: []Expr{&Group{e}, x}} },
			func(e Expr) Expr { return &Cat{Ops: []Expr{tk, &Opt{e}}} },
			func(e Expr) Expr { return &Star{e} },
			func(e Expr) Expr { return &Plus{e} },
		} {
			yield(&Spec{Name: "g", Decls: []Decl{
				&TokenDecl{Name: "TK", Kind: DefString, Value: "t"},
				&Rule{LHS: "x", RHS: &Str{Lexeme: "c"}},
				&Rule{LHS: "start", RHS: w(body)},
			}}, "empty_alternatives")
		}
	}
	// 2. declaration sequences
	e := &NT{Name: "e"}
	pool := func() []Decl {
		return []Decl{
			&TokenDecl{Name: "TK", Kind: DefString, Value: "t"},
			&TokenDecl{Name: "RX", Kind: DefRegex, Value: "a+"},
			&TokenDecl{Name: "ID", Kind: DefPredef, Value: "$ID"},
			&Directive{Assoc: "@left", Handles: []Handle{{Term: &Str{Lexeme: "+"}}, {Term: tk}}},
			&Directive{Assoc: "@right", Handles: []Handle{{Rule: &Rule{LHS: "e", RHS: &Cat{Ops: []Expr{e, e}}}}}},
			&Directive{Assoc: "@none", Handles: []Handle{{Term: &Str{Lexeme: "-"}}, {Rule: &Rule{LHS: "e", RHS: &Alt{Ops: []Expr{&Cat{Ops: []Expr{e, tk, e}}, a}}}}, {Rule: &Rule{LHS: "e"}}}},
			&Rule{LHS: "e"},
			&Rule{LHS: "e", RHS: &Alt{Ops: []Expr{&Cat{Ops: []Expr{e, &Str{Lexeme: "+"}, e}}, a}}},
			&Rule{LHS: "start", RHS: e},
		}
	}
	var seq []int
	var rec func(k int)
	emit := func() {
		for _, semis := range []string{"all", "none", "alt"} {
			p := pool()
			sp := &Spec{Name: "g"}
			for i, idx := range seq {
				d := p[idx]
				on := semis == "all" || (semis == "alt" && i%2 == 0)
				switch v := d.(type) {
				case *TokenDecl:
					c := *v
					c.Semi = on
					d = &c
				case *Directive:
					c := *v
					c.Semi = on
					d = &c
				}
				sp.Decls = append(sp.Decls, d)
			}
			sp.NameSemi = semis != "none"
			// only variants the reference reads back as the same declaration kinds
			back, err := ParseSpec(sp.Text())
			if err != nil || len(back.Decls) != len(sp.Decls) {
				continue
			}
			same := true
			for i := range back.Decls {
				same = same && fmt.Sprintf("%T", back.Decls[i]) == fmt.Sprintf("%T", sp.Decls[i])
			}
			if same {
				yield(sp, fmt.Sprintf("decls%d_semis_%s", len(seq), semis))
			}
		}
	}
	rec = func(k int) {
		emit()
		if k == 0 {
			return
		}
		for i := range pool() {
			seq = append(seq, i)
			rec(k - 1)
			seq = seq[:len(seq)-1]
		}
	}
	rec(maxDecls)
	// 3. bracket nestings
	wrap := []func(Expr) Expr{
		func(x Expr) Expr { return &Group{x} }, func(x Expr) Expr { return &Opt{x} },
		func(x Expr) Expr { return &Star{x} }, func(x Expr) Expr { return &Plus{x} },
	}
	var nest func(cur Expr, depth int)
	nest = func(cur Expr, depth int) {
		if depth > 0 {
			yield(&Spec{Name: "g", Decls: []Decl{&Rule{LHS: "start", RHS: cur}}}, "nesting")
			yield(&Spec{Name: "g", Decls: []Decl{&Rule{LHS: "start", RHS: &Cat{Ops: []Expr{cur, a}}}}}, "nesting")
		}
		if depth == 4 {
			return
		}
		for _, w := range wrap {
			nest(w(cur), depth+1)
		}
	}
	nest(&Alt{Ops: []Expr{a, x}}, 0)
	nest(a, 0)
}
