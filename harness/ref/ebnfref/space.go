package ebnfref

import "fmt"

// SpecSpace enumerates the syntactically valid specifications shared by C11 and C18 (and mutated by C20):
// every right-hand side up to a node bound, every sequence of declarations of every kind up to a length bound
// (with the optional semicolons present / absent / alternating), bracket nestings up to depth 4, and the
// specifications without declarations. Texts are canonical prints; a variant the reference itself does not read
// back as the same declaration list (a directive that swallows the next token name) is not produced.
func SpecSpace(quick bool, yield func(sp *Spec, family string)) {
	a, tk, x := &Str{Lexeme: "a"}, &Tok{Name: "TK"}, &NT{Name: "x"}
	maxNodes, maxDecls := 4, 3
	if !quick {
		maxNodes, maxDecls = 5, 4
	}
	// 1. right-hand sides
	for n, level := range Exprs([]Expr{a, tk, x}, maxNodes) {
		for _, e := range level {
			yield(&Spec{Name: "g", Decls: []Decl{
				&TokenDecl{Name: "TK", Kind: DefString, Value: "t"},
				&Rule{LHS: "x", RHS: &Str{Lexeme: "b"}},
				&Rule{LHS: "start", RHS: e},
			}}, fmt.Sprintf("rhs_nodes%d", n))
		}
	}
	// 1b. trailing and inner empty alternatives after multi-item alternatives, in every bracket and at top level
	b := &Str{Lexeme: "b"}
	for _, body := range []Expr{
		&Alt{Ops: []Expr{&Cat{Ops: []Expr{a, b}}}, TrailingEmpty: true},
		&Alt{Ops: []Expr{a, &Cat{Ops: []Expr{b, x}}}, TrailingEmpty: true},
		&Alt{Ops: []Expr{&Cat{Ops: []Expr{a, b, x}}, tk}, TrailingEmpty: true},
		&Alt{Ops: []Expr{&Cat{Ops: []Expr{a, b}}, &Eps{}, tk}},
		&Alt{Ops: []Expr{&Group{&Alt{Ops: []Expr{a, b}}}}, TrailingEmpty: true},
		&Alt{Ops: []Expr{&Cat{Ops: []Expr{&Group{&Alt{Ops: []Expr{a, b}}}, x}}}, TrailingEmpty: true},
	} {
		for _, w := range []func(Expr) Expr{
			func(e Expr) Expr { return e },
			func(e Expr) Expr { return &Cat{Ops: []Expr{&Group{e}, x}} },
			func(e Expr) Expr { return &Cat{Ops: []Expr{tk, &Opt{e}}} },
			func(e Expr) Expr { return &Star{e} },
			func(e Expr) Expr { return &Plus{e} },
		} {
			yield(&Spec{Name: "g", Decls: []Decl{
				&TokenDecl{Name: "TK", Kind: DefString, Value: "t"},
				&Rule{LHS: "x", RHS: &Str{Lexeme: "c"}},
				&Rule{LHS: "start", RHS: w(body)},
			}}, "empty_alternatives")
		}
	}
	// 1c. two-level shapes beyond the node bound: an operand, a bracketed two-operand expression, an operand - for
	// every bracket kind, both inner and both outer operators, with the bracket first, in the middle and last
	c := &Str{Lexeme: "c"}
	join := func(alt bool, ops ...Expr) Expr {
		if alt {
			return &Alt{Ops: ops}
		}
		return &Cat{Ops: ops}
	}
	for bi, br := range []func(Expr) Expr{
		func(e Expr) Expr { return &Group{e} }, func(e Expr) Expr { return &Opt{e} },
		func(e Expr) Expr { return &Star{e} }, func(e Expr) Expr { return &Plus{e} },
	} {
		for _, innerAlt := range []bool{false, true} {
			for _, outerAlt := range []bool{false, true} {
				inner := br(join(innerAlt, b, c))
				inner3 := br(join(innerAlt, b, c, x))
				for _, rhs := range []Expr{
					join(outerAlt, a, inner), join(outerAlt, inner, a), join(outerAlt, a, inner, tk), join(outerAlt, a, tk, inner),
					join(outerAlt, inner, inner3), join(outerAlt, a, inner3, tk),
					join(outerAlt, a, br(join(innerAlt, b, br(join(!innerAlt, c, x))))),
				} {
					yield(&Spec{Name: "g", Decls: []Decl{
						&TokenDecl{Name: "TK", Kind: DefString, Value: "t"},
						&Rule{LHS: "x", RHS: &Str{Lexeme: "d"}},
						&Rule{LHS: "start", RHS: rhs},
					}}, fmt.Sprintf("two_level_bracket%d", bi))
				}
			}
		}
	}
	// 2. declaration sequences
	e := &NT{Name: "e"}
	pool := func() []Decl {
		return []Decl{
			&TokenDecl{Name: "TK", Kind: DefString, Value: "t"},
			&TokenDecl{Name: "RX", Kind: DefRegex, Value: "a+"},
			&TokenDecl{Name: "ID", Kind: DefPredef, Value: "$ID"},
			&Directive{Assoc: "@left", Handles: []Handle{{Term: &Str{Lexeme: "+"}}, {Term: tk}}},
			&Directive{Assoc: "@right", Handles: []Handle{{Rule: &Rule{LHS: "e", RHS: &Cat{Ops: []Expr{e, e}}}}}},
			&Directive{Assoc: "@none", Handles: []Handle{{Term: &Str{Lexeme: "-"}}, {Rule: &Rule{LHS: "e", RHS: &Alt{Ops: []Expr{&Cat{Ops: []Expr{e, tk, e}}, a}}}}, {Rule: &Rule{LHS: "e"}}}},
			&Rule{LHS: "e"},
			&Rule{LHS: "e", RHS: &Alt{Ops: []Expr{&Cat{Ops: []Expr{e, &Str{Lexeme: "+"}, e}}, a}}},
			&Rule{LHS: "start", RHS: e},
		}
	}
	var seq []int
	var rec func(k int)
	emit := func() {
		for _, semis := range []string{"all", "none", "alt"} {
			p := pool()
			sp := &Spec{Name: "g"}
			for i, idx := range seq {
				d := p[idx]
				on := semis == "all" || (semis == "alt" && i%2 == 0)
				switch v := d.(type) {
				case *TokenDecl:
					c := *v
					c.Semi = on
					d = &c
				case *Directive:
					c := *v
					c.Semi = on
					d = &c
				}
				sp.Decls = append(sp.Decls, d)
			}
			sp.NameSemi = semis != "none"
			// only variants the reference reads back as the same declaration kinds
			back, err := ParseSpec(sp.Text())
			if err != nil || len(back.Decls) != len(sp.Decls) {
				continue
			}
			same := true
			for i := range back.Decls {
				same = same && fmt.Sprintf("%T", back.Decls[i]) == fmt.Sprintf("%T", sp.Decls[i])
			}
			if same {
				yield(sp, fmt.Sprintf("decls%d_semis_%s", len(seq), semis))
			}
		}
	}
	rec = func(k int) {
		emit()
		if k == 0 {
			return
		}
		for i := range pool() {
			seq = append(seq, i)
			rec(k - 1)
			seq = seq[:len(seq)-1]
		}
	}
	rec(maxDecls)
	// 2b. token values that look like something else (a predefined name, a keyword, a directive, a token or rule name,
	// punctuation, brackets, the other kind of delimiter): the value is the text between the delimiters, the kind is the
	// kind of the delimiters - declared before and after its use, with and without a second token of the other kind
	for _, v := range []string{"$ID", "$NOPE", "$", "$ID$", "@left", "grammar", "VV", "start", "< start >", "=", ";", "|", "{{ a }}", "[ab]", "( a )", "a b", " a ", "\\\\", "#", "// c", "/* c */", "*"} {
		for _, kind := range []int{DefString, DefRegex} {
			val := v
			if kind == DefRegex && (val == "// c" || val == "/* c */" || val == "*") {
				continue // would not be a pattern token for the scanner
			}
			vv := &Tok{Name: "VV"}
			decl := &TokenDecl{Name: "VV", Kind: kind, Value: val, Semi: true}
			rule := &Rule{LHS: "start", RHS: &Cat{Ops: []Expr{vv, a}}}
			for _, decls := range [][]Decl{{decl, rule}, {rule, decl}, {decl, &TokenDecl{Name: "ID", Kind: DefPredef, Value: "$ID", Semi: true}, rule}} {
				sp := &Spec{Name: "g", NameSemi: true, Decls: decls}
				back, err := ParseSpec(sp.Text())
				if err != nil || len(back.Decls) != len(decls) {
					continue
				}
				yield(sp, "look_alike_values")
			}
		}
	}
	// 2c. string literals with escapes where they are terminals: in a rule body, as a terminal handle, inside a rule handle
	for _, lex := range []string{`\"`, `\\`, `a\"b`, `\x41`, `\n`, `\|`, `\/`, `a\\`, `\'`, `%s\"`} {
		str := &Str{Lexeme: lex}
		body := &Cat{Ops: []Expr{str, a}}
		yield(&Spec{Name: "g", NameSemi: true, Decls: []Decl{&Rule{LHS: "start", RHS: body}}}, "escaped_strings")
		yield(&Spec{Name: "g", NameSemi: true, Decls: []Decl{
			&Directive{Assoc: "@left", Handles: []Handle{{Term: str}, {Term: a}}, Semi: true},
			&Rule{LHS: "start", RHS: &Alt{Ops: []Expr{body, str}}}}}, "escaped_strings")
		yield(&Spec{Name: "g", NameSemi: true, Decls: []Decl{
			&Rule{LHS: "start", RHS: &Alt{Ops: []Expr{&Cat{Ops: []Expr{str, &NT{Name: "start"}}}, a}}},
			&Directive{Assoc: "@right", Handles: []Handle{{Rule: &Rule{LHS: "start", RHS: &Cat{Ops: []Expr{str, &NT{Name: "start"}}}}}}, Semi: true}}}, "escaped_strings")
	}
	// 2d. handle lists: every list of up to 3 (quick) / 4 handles - repetitions included - over terminals written as
	// strings and as token names (one string spelled like the token name), rule handles (one naming the start rule, one
	// with an empty body); alone, followed by a second directive, and split over two directives
	{
		e := &NT{Name: "e"}
		hpool := []Handle{
			{Term: &Str{Lexeme: "+"}}, {Term: tk}, {Term: &Str{Lexeme: "TK"}}, {Term: &Str{Lexeme: "-"}},
			{Rule: &Rule{LHS: "e", RHS: &Cat{Ops: []Expr{e, e}}}},
			{Rule: &Rule{LHS: "start", RHS: &Cat{Ops: []Expr{e, &Str{Lexeme: "+"}}}}},
			{Rule: &Rule{LHS: "e"}},
		}
		tail := []Decl{
			&TokenDecl{Name: "TK", Kind: DefString, Value: "t", Semi: true},
			&Rule{LHS: "start", RHS: &Alt{Ops: []Expr{e, &Cat{Ops: []Expr{e, &Str{Lexeme: "+"}}}}}},
			&Rule{LHS: "e", RHS: &Alt{Ops: []Expr{&Cat{Ops: []Expr{e, e}}, tk, &Str{Lexeme: "TK"}, &Str{Lexeme: "-"}}, TrailingEmpty: true}},
		}
		maxH := 3
		if !quick {
			maxH = 4
		}
		assocs := []string{"@left", "@right", "@none"}
		count := 0
		var cur []Handle
		var rec func()
		rec = func() {
			if len(cur) > 0 {
				count++
				hs := append([]Handle{}, cur...)
				as := assocs[count%3]
				yield(&Spec{Name: "g", NameSemi: true, Decls: append([]Decl{&Directive{Assoc: as, Handles: hs, Semi: true}}, tail...)}, "handle_lists")
				if len(hs) >= 2 {
					for cut := 1; cut < len(hs); cut++ {
						yield(&Spec{Name: "g", NameSemi: true, Decls: append([]Decl{
							&Directive{Assoc: as, Handles: hs[:cut], Semi: true},
							&Directive{Assoc: assocs[(count+1)%3], Handles: hs[cut:], Semi: true}}, tail...)}, "handle_lists_two_directives")
					}
				}
			}
			if len(cur) == maxH {
				return
			}
			for _, h := range hpool {
				cur = append(cur, h)
				rec()
				cur = cur[:len(cur)-1]
			}
		}
		rec()
	}
	// 3. bracket nestings
	wrap := []func(Expr) Expr{
		func(x Expr) Expr { return &Group{x} }, func(x Expr) Expr { return &Opt{x} },
		func(x Expr) Expr { return &Star{x} }, func(x Expr) Expr { return &Plus{x} },
	}
	var nest func(cur Expr, depth int)
	nest = func(cur Expr, depth int) {
		if depth > 0 {
			yield(&Spec{Name: "g", Decls: []Decl{&Rule{LHS: "start", RHS: cur}}}, "nesting")
			yield(&Spec{Name: "g", Decls: []Decl{&Rule{LHS: "start", RHS: &Cat{Ops: []Expr{cur, a}}}}}, "nesting")
		}
		if depth == 4 {
			return
		}
		for _, w := range wrap {
			nest(w(cur), depth+1)
		}
	}
	nest(&Alt{Ops: []Expr{a, x}}, 0)
	nest(a, 0)
}

// Scaling enumerates long specifications of simple shape: n alternatives, n-fold nesting of every bracket kind,
// n juxtaposed operands, n declarations of every kind, n handles, n directives - for every n in sizes.
// They exercise depth- and length-related limits of a parser (stack depth, buffer sizes) that short sentences cannot.
func Scaling(sizes []int, yield func(text, family string, n int)) {
	rep := func(s string, n int, sep string) string {
		out := make([]string, n)
		for i := range out {
			out[i] = s
		}
		return joinStrings(out, sep)
	}
	for _, n := range sizes {
		yield("grammar g ;\nstart = "+rep(`"a"`, n, " | ")+" ;\n", "alternatives", n)
		yield("grammar g ;\nstart = "+rep(`"a" x`, n, " | ")+" | ;\nx = ;\n", "alternatives_trailing", n)
		yield("grammar g ;\nstart = "+rep(`"a"`, n, " ")+" ;\n", "operands", n)
		for _, b := range [][2]string{{"(", ")"}, {"[", "]"}, {"{", "}"}, {"{{", "}}"}} {
			yield("grammar g ;\nstart = "+rep(b[0], n, " ")+` "a" `+rep(b[1], n, " ")+" ;\n", "nesting"+b[0], n)
		}
		mixedOpen, mixedClose := "", ""
		kinds := [][2]string{{"(", ")"}, {"[", "]"}, {"{", "}"}, {"{{", "}}"}}
		for i := 0; i < n; i++ {
			k := kinds[i%4]
			mixedOpen += k[0] + " "
			mixedClose = " " + k[1] + mixedClose
		}
		yield("grammar g ;\nstart = "+mixedOpen+`"a" | x`+mixedClose+" ;\nx = ;\n", "nesting_mixed", n)
		rules := ""
		for i := 0; i < n; i++ {
			rules += fmt.Sprintf("r%d = \"a\" r%d | ;\n", i, (i+1)%n)
		}
		yield("grammar g ;\nstart = r0 ;\n"+rules, "rules", n)
		toks := ""
		use := ""
		for i := 0; i < n; i++ {
			toks += fmt.Sprintf("T%d_ = \"t%d\"\n", i, i)
			use += fmt.Sprintf(" T%d_", i)
		}
		yield("grammar g ;\n"+toks+"start ="+use+" ;\n", "tokens", n)
		yield("grammar g ;\n"+toks+"@left"+use+" ;\nstart ="+use+" ;\n", "handles", n)
		dirs := ""
		for i := 0; i < n; i++ {
			dirs += fmt.Sprintf("@right T%d_ < q = q T%d_ q >\n", i, i)
		}
		yield("grammar g ;\n"+toks+dirs+"start = q ;\nq = T0_ ;\n", "directives", n)
	}
}

func joinStrings(xs []string, sep string) string {
	out := ""
	for i, x := range xs {
		if i > 0 {
			out += sep
		}
		out += x
	}
	return out
}
