package ebnfref

// Exprs enumerates every right-hand side with exactly 1..maxNodes nodes over the given leaves, grouped by
// node count. A leaf, a bracket pair, a juxtaposition, an alternation and a trailing '|' each count one node.
// Decomposition is unique (juxtaposition = list of units, alternation = list of juxtapositions), so there
// are no duplicates, and every tree prints to a text that parses back to the same tree shape.
func Exprs(leaves []Expr, maxNodes int) [][]Expr {
	units := make([][]Expr, maxNodes+1) // leaf or bracketed expression
	cats := make([][]Expr, maxNodes+1)  // unit or juxtaposition of >= 2 units
	exprs := make([][]Expr, maxNodes+1) // cat level or alternation
	// seqs[k][n]: lists of exactly k units with total size n
	type list []Expr
	useqs := map[[2]int][]list{}
	cseqs := map[[2]int][]list{}
	for n := 1; n <= maxNodes; n++ {
		if n == 1 {
			units[1] = append(units[1], leaves...)
		}
		for _, e := range exprs[n-1] {
			units[n] = append(units[n], &Group{e}, &Opt{e}, &Star{e}, &Plus{e})
		}
		// unit sequences
		for _, u := range units[n] {
			useqs[[2]int{1, n}] = append(useqs[[2]int{1, n}], list{u})
		}
		for k := 2; k <= n; k++ {
			for i := 1; i <= n-(k-1); i++ {
				for _, u := range units[i] {
					for _, rest := range useqs[[2]int{k - 1, n - i}] {
						useqs[[2]int{k, n}] = append(useqs[[2]int{k, n}], append(list{u}, rest...))
					}
				}
			}
		}
		cats[n] = append(cats[n], units[n]...)
		for k := 2; k <= n-1; k++ {
			for _, l := range useqs[[2]int{k, n - 1}] {
				cats[n] = append(cats[n], &Cat{Ops: l})
			}
		}
		// cat sequences (alternatives)
		for _, c := range cats[n] {
			cseqs[[2]int{1, n}] = append(cseqs[[2]int{1, n}], list{c})
		}
		for k := 2; k <= n; k++ {
			for i := 1; i <= n-(k-1); i++ {
				for _, c := range cats[i] {
					for _, rest := range cseqs[[2]int{k - 1, n - i}] {
						cseqs[[2]int{k, n}] = append(cseqs[[2]int{k, n}], append(list{c}, rest...))
					}
				}
			}
		}
		exprs[n] = append(exprs[n], cats[n]...)
		for k := 2; k <= n-1; k++ {
			for _, l := range cseqs[[2]int{k, n - 1}] {
				exprs[n] = append(exprs[n], &Alt{Ops: l})
			}
		}
		// trailing '|' : one more node
		for k := 1; k <= n-2; k++ {
			for _, l := range cseqs[[2]int{k, n - 2}] {
				exprs[n] = append(exprs[n], &Alt{Ops: l, TrailingEmpty: true})
			}
		}
	}
	return exprs
}
