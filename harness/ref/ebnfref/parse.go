package ebnfref

import "fmt"

// Node is a node of the concrete parse tree the reference parser builds: an application of one of the
// 35 productions of the documented grammar (numbered as in the header of emerge's parsing table), or a token.
type Node struct {
	Prod int // -1 for a token leaf
	Head string
	Tok  *LexToken
	Kids []*Node
}

// Heads[i] / BodyLen[i] describe production i of the documented grammar.
var Heads = []string{"grammar", "name", "decls", "decls", "decl", "decl", "decl", "semi_opt", "semi_opt",
	"token", "token", "token", "directive", "directive", "directive", "handles", "handles", "handles", "handles",
	"rule_handle", "rule", "rule", "lhs", "rhs", "rhs", "rhs", "rhs", "rhs", "rhs", "rhs", "rhs", "rhs", "nonterm", "term", "term"}

// Bodies spells every production body (terminals by token kind, non-terminals by name).
var Bodies = [][]string{
	{"name", "decls"}, {"grammar", "IDENT", "semi_opt"}, {"decls", "decl"}, {}, {"token", "semi_opt"}, {"directive", "semi_opt"}, {"rule", ";"}, {";"}, {},
	{"TOKEN", "=", "STRING"}, {"TOKEN", "=", "REGEX"}, {"TOKEN", "=", "PREDEF"},
	{"@left", "handles"}, {"@right", "handles"}, {"@none", "handles"},
	{"handles", "term"}, {"handles", "rule_handle"}, {"term"}, {"rule_handle"},
	{"<", "rule", ">"}, {"lhs", "=", "rhs"}, {"lhs", "="}, {"nonterm"},
	{"rhs", "rhs"}, {"(", "rhs", ")"}, {"[", "rhs", "]"}, {"{", "rhs", "}"}, {"{{", "rhs", "}}"}, {"rhs", "|", "rhs"}, {"rhs", "|"}, {"nonterm"}, {"term"},
	{"IDENT"}, {"TOKEN"}, {"STRING"},
}

// SyntaxError is the reference's syntax error: the index of the first token after which no specification can
// continue (len(tokens) = the input ended too early).
type SyntaxError struct {
	Index int
	Msg   string
}

func (e *SyntaxError) Error() string {
	return fmt.Sprintf("syntax error at token %d: %s", e.Index, e.Msg)
}

type cparser struct {
	toks []LexToken
	pos  int
}

func (p *cparser) peek() string {
	if p.pos < len(p.toks) {
		return p.toks[p.pos].Kind
	}
	return "$"
}

func (p *cparser) leaf() *Node {
	t := &p.toks[p.pos]
	p.pos++
	return &Node{Prod: -1, Head: t.Kind, Tok: t}
}

func (p *cparser) expect(kind string) *Node {
	if p.peek() != kind {
		panic(&SyntaxError{Index: p.pos, Msg: fmt.Sprintf("expected %s, found %s", kind, p.peek())})
	}
	return p.leaf()
}

func mk(prod int, kids ...*Node) *Node { return &Node{Prod: prod, Head: Heads[prod], Kids: kids} }

func (p *cparser) semiOpt() *Node {
	if p.peek() == ";" {
		return mk(7, p.leaf())
	}
	return mk(8)
}

func startsUnit(k string) bool {
	switch k {
	case "(", "[", "{", "{{", "IDENT", "TOKEN", "STRING":
		return true
	}
	return false
}

func (p *cparser) term() *Node {
	switch p.peek() {
	case "TOKEN":
		return mk(33, p.leaf())
	case "STRING":
		return mk(34, p.leaf())
	}
	panic(&SyntaxError{Index: p.pos, Msg: "expected a terminal"})
}

func (p *cparser) unit() *Node {
	switch k := p.peek(); k {
	case "(", "[", "{", "{{":
		open := p.leaf()
		inner := p.alt()
		closing := map[string]string{"(": ")", "[": "]", "{": "}", "{{": "}}"}[k]
		prod := map[string]int{"(": 24, "[": 25, "{": 26, "{{": 27}[k]
		return mk(prod, open, inner, p.expect(closing))
	case "IDENT":
		return mk(30, mk(32, p.leaf()))
	case "TOKEN", "STRING":
		return mk(31, p.term())
	}
	panic(&SyntaxError{Index: p.pos, Msg: "expected an operand"})
}

// cat: juxtaposition is left-associative and binds tighter than '|'.
func (p *cparser) cat() *Node {
	left := p.unit()
	for startsUnit(p.peek()) {
		left = mk(23, left, p.unit())
	}
	return left
}

// alt: '|' groups to the right; a '|' not followed by an operand is the trailing-empty form.
func (p *cparser) alt() *Node {
	left := p.cat()
	for p.peek() == "|" {
		bar := p.leaf()
		if startsUnit(p.peek()) {
			return mk(28, left, bar, p.alt())
		}
		left = mk(29, left, bar)
	}
	return left
}

func (p *cparser) rule() *Node {
	lhs := mk(22, mk(32, p.expect("IDENT")))
	eq := p.expect("=")
	if startsUnit(p.peek()) {
		return mk(20, lhs, eq, p.alt())
	}
	return mk(21, lhs, eq)
}

func (p *cparser) handle() (*Node, bool) {
	switch p.peek() {
	case "TOKEN", "STRING":
		return p.term(), true
	case "<":
		open := p.leaf()
		r := p.rule()
		return mk(19, open, r, p.expect(">")), false
	}
	return nil, false
}

func (p *cparser) decl() *Node {
	switch k := p.peek(); k {
	case "TOKEN":
		name := p.leaf()
		eq := p.expect("=")
		switch p.peek() {
		case "STRING":
			return mk(4, mk(9, name, eq, p.leaf()), p.semiOpt())
		case "REGEX":
			return mk(4, mk(10, name, eq, p.leaf()), p.semiOpt())
		case "PREDEF":
			return mk(4, mk(11, name, eq, p.leaf()), p.semiOpt())
		}
		panic(&SyntaxError{Index: p.pos, Msg: "expected a token definition"})
	case "@left", "@right", "@none":
		kw := p.leaf()
		h, isTerm := p.handle()
		if h == nil {
			panic(&SyntaxError{Index: p.pos, Msg: "expected a handle"})
		}
		var handles *Node
		if isTerm {
			handles = mk(17, h)
		} else {
			handles = mk(18, h)
		}
		for {
			h, isTerm := p.handle()
			if h == nil {
				break
			}
			if isTerm {
				handles = mk(15, handles, h)
			} else {
				handles = mk(16, handles, h)
			}
		}
		prod := map[string]int{"@left": 12, "@right": 13, "@none": 14}[k]
		return mk(5, mk(prod, kw, handles), p.semiOpt())
	case "IDENT":
		r := p.rule()
		return mk(6, r, p.expect(";"))
	}
	panic(&SyntaxError{Index: p.pos, Msg: "expected a declaration"})
}

// ParseTokens builds the concrete parse tree of a token sequence under the documented disambiguation
// (juxtaposition over '|', '|' to the right, handles and operands consumed greedily).
func ParseTokens(toks []LexToken) (root *Node, err *SyntaxError) {
	p := &cparser{toks: toks}
	defer func() {
		if r := recover(); r != nil {
			se, ok := r.(*SyntaxError)
			if !ok {
				panic(r)
			}
			root, err = nil, se
		}
	}()
	name := mk(1, p.expect("grammar"), p.expect("IDENT"), p.semiOpt())
	decls := mk(3)
	for p.peek() != "$" {
		decls = mk(2, decls, p.decl())
	}
	return mk(0, name, decls), nil
}

// Reductions lists the production indices of the tree in post-order (a rightmost derivation in reverse)
// interleaved with the token leaves: each element is either a production index (>= 0) or -(k+1) for token k.
func (n *Node) Walk(leaf func(t *LexToken), reduce func(n *Node)) {
	if n.Prod < 0 {
		leaf(n.Tok)
		return
	}
	for _, k := range n.Kids {
		k.Walk(leaf, reduce)
	}
	reduce(n)
}

// ---------------------------------------------------------------------------------------------
// Concrete tree -> abstract tree.

func exprOf(n *Node) Expr {
	switch n.Prod {
	case 23:
		l, r := exprOf(n.Kids[0]), exprOf(n.Kids[1])
		var ops []Expr
		if c, ok := l.(*Cat); ok {
			ops = append(ops, c.Ops...)
		} else {
			ops = append(ops, l)
		}
		ops = append(ops, r)
		return &Cat{Ops: ops}
	case 24:
		return &Group{exprOf(n.Kids[1])}
	case 25:
		return &Opt{exprOf(n.Kids[1])}
	case 26:
		return &Star{exprOf(n.Kids[1])}
	case 27:
		return &Plus{exprOf(n.Kids[1])}
	case 28:
		l, r := exprOf(n.Kids[0]), exprOf(n.Kids[2])
		out := &Alt{}
		if a, ok := l.(*Alt); ok {
			out.Ops = append(out.Ops, a.Ops...)
			if a.TrailingEmpty {
				out.Ops = append(out.Ops, &Eps{})
			}
		} else {
			out.Ops = append(out.Ops, l)
		}
		if a, ok := r.(*Alt); ok {
			out.Ops = append(out.Ops, a.Ops...)
			out.TrailingEmpty = a.TrailingEmpty
		} else {
			out.Ops = append(out.Ops, r)
		}
		return out
	case 29:
		l := exprOf(n.Kids[0])
		if a, ok := l.(*Alt); ok {
			out := &Alt{Ops: append([]Expr{}, a.Ops...), TrailingEmpty: true}
			if a.TrailingEmpty {
				out.Ops = append(out.Ops, &Eps{})
			}
			return out
		}
		return &Alt{Ops: []Expr{l}, TrailingEmpty: true}
	case 30:
		return &NT{Name: n.Kids[0].Kids[0].Tok.Lexeme}
	case 31:
		return termOf(n.Kids[0])
	}
	panic(fmt.Sprintf("exprOf: production %d", n.Prod))
}

func termOf(n *Node) Expr {
	if n.Prod == 33 {
		return &Tok{Name: n.Kids[0].Tok.Lexeme}
	}
	return &Str{Lexeme: n.Kids[0].Tok.Lexeme}
}

func ruleOf(n *Node) *Rule {
	r := &Rule{LHS: n.Kids[0].Kids[0].Kids[0].Tok.Lexeme}
	if n.Prod == 20 {
		r.RHS = exprOf(n.Kids[2])
	}
	return r
}

func handlesOf(n *Node) []Handle {
	one := func(h *Node) Handle {
		if h.Prod == 19 {
			return Handle{Rule: ruleOf(h.Kids[1])}
		}
		return Handle{Term: termOf(h)}
	}
	switch n.Prod {
	case 15, 16:
		return append(handlesOf(n.Kids[0]), one(n.Kids[1]))
	}
	return []Handle{one(n.Kids[0])}
}

// SpecOf converts a concrete tree to the abstract specification.
func SpecOf(root *Node) *Spec {
	name := root.Kids[0]
	s := &Spec{Name: name.Kids[1].Tok.Lexeme, NameSemi: name.Kids[2].Prod == 7}
	var decls []*Node
	for d := root.Kids[1]; d.Prod == 2; d = d.Kids[0] {
		decls = append([]*Node{d.Kids[1]}, decls...)
	}
	for _, d := range decls {
		switch d.Prod {
		case 4:
			t := d.Kids[0]
			s.Decls = append(s.Decls, &TokenDecl{Name: t.Kids[0].Tok.Lexeme, Kind: t.Prod - 9, Value: t.Kids[2].Tok.Lexeme, Semi: d.Kids[1].Prod == 7})
		case 5:
			dir := d.Kids[0]
			s.Decls = append(s.Decls, &Directive{Assoc: dir.Kids[0].Tok.Kind, Handles: handlesOf(dir.Kids[1]), Semi: d.Kids[1].Prod == 7})
		case 6:
			s.Decls = append(s.Decls, ruleOf(d.Kids[0]))
		}
	}
	return s
}

// ParseSpec is the reference front end: text -> tokens -> concrete tree -> abstract specification.
func ParseSpec(text string) (*Spec, error) {
	toks, lerr := Tokenize(text)
	if lerr != nil {
		return nil, lerr
	}
	root, serr := ParseTokens(toks)
	if serr != nil {
		return nil, serr
	}
	return SpecOf(root), nil
}
