package ebnfref

import (
	"fmt"
	"unicode/utf8"
)

// The reference scanner automaton: a transcription of the automaton documented in docs/6-design.md
// ("Lexer DFA Code"), state numbers included, with the token kind of every accepting state taken from the
// token table of docs/5-definitions.md, and with the one rule the property states explicitly and the
// listing contradicts: inside /* … */ a '*' keeps the "star seen" state, so a comment ends at the first "*/".

// RefStates is the number of states of the documented automaton (0..54).
const RefStates = 55

var refTrans [RefStates]map[rune]int

// RefFinal maps an accepting state to its token kind ("WS", "EOL", "COMMENT" are skipped kinds).
var RefFinal = map[int]string{
	1: "WS", 2: "EOL",
	3: "=", 4: ";", 5: "|", 6: "(", 7: ")", 8: "[", 9: "]", 10: "{", 11: "}", 12: "{{", 13: "}}", 14: "<", 15: ">",
	17: "PREDEF",
	22: "@left", 27: "@right", 31: "@none",
	38: "grammar",
	32: "IDENT", 33: "IDENT", 34: "IDENT", 35: "IDENT", 36: "IDENT", 37: "IDENT", 39: "IDENT", 40: "IDENT",
	42: "TOKEN",
	46: "STRING", 50: "REGEX",
	51: "COMMENT", 54: "COMMENT",
}

func add(s int, r rune, next int) {
	if refTrans[s] == nil {
		refTrans[s] = map[rune]int{}
	}
	refTrans[s][r] = next
}

func init() {
	add(0, '\t', 1)
	add(0, ' ', 1)
	add(1, '\t', 1)
	add(1, ' ', 1)
	add(0, '\n', 2)
	add(0, '\r', 2)
	add(2, '\n', 2)
	add(2, '\r', 2)

	add(0, '=', 3)
	add(0, ';', 4)
	add(0, '|', 5)
	add(0, '(', 6)
	add(0, ')', 7)
	add(0, '[', 8)
	add(0, ']', 9)
	add(0, '{', 10)
	add(0, '}', 11)
	add(10, '{', 12)
	add(11, '}', 13)
	add(0, '<', 14)
	add(0, '>', 15)

	add(0, '$', 16)
	for _, r := range "0123456789ABCDEFGHIJKLMNOPQRSTUVWXYZ_" {
		if 'A' <= r && r <= 'Z' {
			add(16, r, 17)
		}
		add(17, r, 17)
	}

	add(0, '@', 18)
	add(18, 'l', 19)
	add(19, 'e', 20)
	add(20, 'f', 21)
	add(21, 't', 22)
	add(18, 'r', 23)
	add(23, 'i', 24)
	add(24, 'g', 25)
	add(25, 'h', 26)
	add(26, 't', 27)
	add(18, 'n', 28)
	add(28, 'o', 29)
	add(29, 'n', 30)
	add(30, 'e', 31)

	add(0, 'g', 32)
	add(32, 'r', 33)
	add(33, 'a', 34)
	add(34, 'm', 35)
	add(35, 'm', 36)
	add(36, 'a', 37)
	add(37, 'r', 38)
	for _, r := range "0123456789_abcdefghijklmnopqrstuvwxyz" {
		if 'a' <= r && r != 'g' {
			add(0, r, 39)
		}
		if r != 'r' {
			add(32, r, 40)
			add(37, r, 40)
		}
		if r != 'a' {
			add(33, r, 40)
			add(36, r, 40)
		}
		if r != 'm' {
			add(34, r, 40)
			add(35, r, 40)
		}
		add(38, r, 40)
		add(39, r, 40)
		add(40, r, 40)
	}

	for _, r := range "0123456789ABCDEFGHIJKLMNOPQRSTUVWXYZ_" {
		if 'A' <= r && r <= 'Z' {
			add(0, r, 41)
		}
		add(41, r, 42)
		add(42, r, 42)
	}

	add(0, '"', 43)
	add(43, '\\', 44)
	for r := rune(0x21); r <= 0x7E; r++ {
		add(44, r, 45)
		if r != '"' && r != '\\' {
			add(43, r, 45)
			add(45, r, 45)
		}
	}
	add(45, '\\', 44)
	add(45, '"', 46)

	add(0, '/', 47)
	add(47, '\\', 48)
	for r := rune(0x20); r <= 0x7E; r++ {
		add(48, r, 49)
		if r != '/' && r != '\\' && r != '*' {
			add(47, r, 49)
		}
		if r != '/' && r != '\\' {
			add(49, r, 49)
		}
	}
	add(49, '\\', 48)
	add(49, '/', 50)

	add(47, '/', 51)
	add(51, '\t', 51)
	for r := rune(0x20); r <= 0x7E; r++ {
		add(51, r, 51)
	}

	add(47, '*', 52)
	for _, r := range "\t\n\r" {
		add(52, r, 52)
		add(53, r, 52)
	}
	for r := rune(0x20); r <= 0x7E; r++ {
		if r != '*' {
			add(52, r, 52)
		}
		if r != '/' && r != '*' {
			add(53, r, 52)
		}
	}
	add(52, '*', 53)
	add(53, '*', 53) // the property: a comment ends at the first "*/" (the listing sends '*' back to 52)
	add(53, '/', 54)
}

// RefStep is the reference transition function (-1: no transition).
func RefStep(s int, r rune) int {
	if s < 0 || s >= RefStates {
		return -1
	}
	if n, ok := refTrans[s][r]; ok {
		return n
	}
	return -1
}

// LexToken is a token produced by the reference tokenizer.
type LexToken struct {
	Kind   string
	Lexeme string
	Offset int // in characters (= bytes for the ASCII texts the harness uses), 0-based
	Line   int // 1-based
	Column int // 1-based
}

// LexError is the reference's lexical error: the position of the first character of the text that is no token.
type LexError struct {
	Offset, Line, Column int
	Text                 string // pending text from the lexeme start up to (excluding) the offending character
}

func (e *LexError) Error() string {
	return fmt.Sprintf("lexical error at %d:%d (offset %d): %q", e.Line, e.Column, e.Offset, e.Text)
}

// Tokenize scans text as the documentation prescribes: from each token start follow the automaton as far as it
// goes, evaluate the state reached when it cannot continue (or the input ends), skip WS/EOL/COMMENT.
// Invalid UTF-8 is reported as an error at the offending byte (the reader's own error; kind "utf8").
func Tokenize(text string) ([]LexToken, *LexError) {
	var out []LexToken
	off, line, col := 0, 1, 1 // position of the next character
	i := 0
	for i < len(text) {
		startI, startOff, startLine, startCol := i, off, line, col
		state := 0
		for i < len(text) {
			r, sz := utf8.DecodeRuneInString(text[i:])
			if r == utf8.RuneError && sz == 1 {
				return out, &LexError{Offset: off, Line: line, Column: col, Text: "utf8"}
			}
			n := RefStep(state, r)
			if n < 0 {
				break
			}
			state = n
			i += sz
			off++
			if r == '\n' {
				line++
				col = 1
			} else {
				col++
			}
		}
		kind, ok := RefFinal[state]
		if !ok {
			return out, &LexError{Offset: startOff, Line: startLine, Column: startCol, Text: text[startI:i]}
		}
		lex := text[startI:i]
		switch kind {
		case "WS", "EOL", "COMMENT":
			continue
		case "STRING", "REGEX":
			lex = lex[1 : len(lex)-1]
		}
		out = append(out, LexToken{Kind: kind, Lexeme: lex, Offset: startOff, Line: startLine, Column: startCol})
	}
	return out, nil
}
