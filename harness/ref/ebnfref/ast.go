// Package ebnfref is the reference model of emerge's specification language: an EBNF syntax tree,
// its token sequence and printer, a tokenizer and recogniser written from the documentation, and the
// denotational meaning of a rule (bounded language of terminal strings).
package ebnfref

import (
	"fmt"
	"strings"
)

// Expr is a right-hand side expression.
type Expr interface{ isExpr() }

type (
	// Cat is juxtaposition (two or more operands; an operand is never an Alt).
	Cat struct{ Ops []Expr }
	// Alt is alternation; TrailingEmpty is the `rhs "|"` form (adds the empty alternative).
	// EmptyAt lists further positions of empty alternatives (`a | | b`); normally nil.
	Alt struct {
		Ops           []Expr
		TrailingEmpty bool
	}
	Group struct{ X Expr } // ( x )
	Opt   struct{ X Expr } // [ x ]
	Star  struct{ X Expr } // { x }
	Plus  struct{ X Expr } // {{ x }}
	NT    struct{ Name string }
	Tok   struct{ Name string }   // named token
	Str   struct{ Lexeme string } // string literal; Lexeme is the text between the quotes, as written
	Eps   struct{}                // an empty alternative in the middle of an alternation (`a | | b`); prints nothing
)

func (*Cat) isExpr()   {}
func (*Alt) isExpr()   {}
func (*Group) isExpr() {}
func (*Opt) isExpr()   {}
func (*Star) isExpr()  {}
func (*Plus) isExpr()  {}
func (*NT) isExpr()    {}
func (*Tok) isExpr()   {}
func (*Str) isExpr()   {}
func (*Eps) isExpr()   {}

// Decl is a declaration.
type Decl interface{ isDecl() }

const (
	DefString = iota
	DefRegex
	DefPredef
)

type (
	TokenDecl struct {
		Name  string
		Kind  int
		Value string // between the delimiters (STRING, REGEX) or the $NAME (PREDEF)
		Semi  bool
	}
	Directive struct {
		Assoc   string // "@left" | "@right" | "@none"
		Handles []Handle
		Semi    bool
	}
	Rule struct {
		LHS string
		RHS Expr // nil: empty rule
	}
	Handle struct {
		Term Expr  // *Tok or *Str
		Rule *Rule // <rule>
	}
)

func (*TokenDecl) isDecl() {}
func (*Directive) isDecl() {}
func (*Rule) isDecl()      {}

// Spec is a whole specification.
type Spec struct {
	Name     string
	NameSemi bool
	Decls    []Decl
}

// Token is one significant token of a specification with the text that spells it.
type Token struct {
	Kind   string // terminal name used by emerge's parser: "=", ";", …, "IDENT", "TOKEN", "STRING", "REGEX", "PREDEF", "grammar", "@left", …
	Text   string // source spelling
	Lexeme string // expected lexeme (between the delimiters for STRING / REGEX)
}

func punct(s string) Token { return Token{Kind: s, Text: s, Lexeme: s} }

// Ident / TokenName / StringTok build the variable tokens.
func Ident(s string) Token     { return Token{Kind: "IDENT", Text: s, Lexeme: s} }
func TokenName(s string) Token { return Token{Kind: "TOKEN", Text: s, Lexeme: s} }
func StringTok(lex string) Token {
	return Token{Kind: "STRING", Text: `"` + lex + `"`, Lexeme: lex}
}
func RegexTok(lex string) Token { return Token{Kind: "REGEX", Text: "/" + lex + "/", Lexeme: lex} }
func PredefTok(s string) Token  { return Token{Kind: "PREDEF", Text: s, Lexeme: s} }
func Keyword(s string) Token    { return punct(s) }

// ExprTokens appends the tokens of e.
func ExprTokens(e Expr, out []Token) []Token {
	switch v := e.(type) {
	case *Cat:
		for _, o := range v.Ops {
			out = ExprTokens(o, out)
		}
	case *Alt:
		for i, o := range v.Ops {
			if i > 0 {
				out = append(out, punct("|"))
			}
			out = ExprTokens(o, out)
		}
		if v.TrailingEmpty {
			out = append(out, punct("|"))
		}
	case *Group:
		out = append(ExprTokens(v.X, append(out, punct("("))), punct(")"))
	case *Opt:
		out = append(ExprTokens(v.X, append(out, punct("["))), punct("]"))
	case *Star:
		out = append(ExprTokens(v.X, append(out, punct("{"))), punct("}"))
	case *Plus:
		out = append(ExprTokens(v.X, append(out, punct("{{"))), punct("}}"))
	case *Eps:
	case *NT:
		out = append(out, Ident(v.Name))
	case *Tok:
		out = append(out, TokenName(v.Name))
	case *Str:
		out = append(out, StringTok(v.Lexeme))
	default:
		panic(fmt.Sprintf("ExprTokens: %T", e))
	}
	return out
}

// RuleTokens appends the tokens of `lhs = rhs` (without the terminating semicolon).
func RuleTokens(r *Rule, out []Token) []Token {
	out = append(out, Ident(r.LHS), punct("="))
	if r.RHS != nil {
		out = ExprTokens(r.RHS, out)
	}
	return out
}

// Tokens returns the token sequence of the specification.
func (s *Spec) Tokens() []Token {
	out := []Token{Keyword("grammar"), Ident(s.Name)}
	if s.NameSemi {
		out = append(out, punct(";"))
	}
	for _, d := range s.Decls {
		switch v := d.(type) {
		case *TokenDecl:
			out = append(out, TokenName(v.Name), punct("="))
			switch v.Kind {
			case DefString:
				out = append(out, StringTok(v.Value))
			case DefRegex:
				out = append(out, RegexTok(v.Value))
			default:
				out = append(out, PredefTok(v.Value))
			}
			if v.Semi {
				out = append(out, punct(";"))
			}
		case *Directive:
			out = append(out, Keyword(v.Assoc))
			for _, h := range v.Handles {
				if h.Rule != nil {
					out = append(RuleTokens(h.Rule, append(out, punct("<"))), punct(">"))
				} else {
					out = ExprTokens(h.Term, out)
				}
			}
			if v.Semi {
				out = append(out, punct(";"))
			}
		case *Rule:
			out = append(RuleTokens(v, out), punct(";"))
		}
	}
	return out
}

// Text prints the specification in canonical layout: one blank between tokens of a declaration,
// one declaration per line, final newline.
func (s *Spec) Text() string {
	var b strings.Builder
	fmt.Fprintf(&b, "grammar %s", s.Name)
	if s.NameSemi {
		b.WriteString(" ;")
	}
	b.WriteString("\n")
	for _, d := range s.Decls {
		one := &Spec{Decls: []Decl{d}}
		toks := one.Tokens()[2:]
		for i, t := range toks {
			if i > 0 {
				b.WriteString(" ")
			}
			b.WriteString(t.Text)
		}
		b.WriteString("\n")
	}
	return b.String()
}

// ExprString prints an expression with single blanks.
func ExprString(e Expr) string {
	toks := ExprTokens(e, nil)
	parts := make([]string, len(toks))
	for i, t := range toks {
		parts[i] = t.Text
	}
	return strings.Join(parts, " ")
}

// MapNT returns a copy of the specification with every non-terminal name passed through f.
func (s *Spec) MapNT(f func(string) string) *Spec {
	var ex func(e Expr) Expr
	list := func(in []Expr) []Expr {
		out := make([]Expr, len(in))
		for i, e := range in {
			out[i] = ex(e)
		}
		return out
	}
	ex = func(e Expr) Expr {
		switch v := e.(type) {
		case *Cat:
			return &Cat{Ops: list(v.Ops)}
		case *Alt:
			return &Alt{Ops: list(v.Ops), TrailingEmpty: v.TrailingEmpty}
		case *Group:
			return &Group{ex(v.X)}
		case *Opt:
			return &Opt{ex(v.X)}
		case *Star:
			return &Star{ex(v.X)}
		case *Plus:
			return &Plus{ex(v.X)}
		case *NT:
			return &NT{Name: f(v.Name)}
		}
		return e
	}
	rule := func(r *Rule) *Rule {
		out := &Rule{LHS: f(r.LHS)}
		if r.RHS != nil {
			out.RHS = ex(r.RHS)
		}
		return out
	}
	out := &Spec{Name: s.Name, NameSemi: s.NameSemi}
	for _, d := range s.Decls {
		switch v := d.(type) {
		case *Rule:
			out.Decls = append(out.Decls, rule(v))
		case *Directive:
			nd := &Directive{Assoc: v.Assoc, Semi: v.Semi}
			for _, h := range v.Handles {
				if h.Rule != nil {
					nd.Handles = append(nd.Handles, Handle{Rule: rule(h.Rule)})
				} else {
					nd.Handles = append(nd.Handles, h)
				}
			}
			out.Decls = append(out.Decls, nd)
		default:
			out.Decls = append(out.Decls, d)
		}
	}
	return out
}

// Placed is a token with the position of its first character in a rendered text.
type Placed struct {
	Token
	Offset, Line, Col int
}

// Render writes the tokens with sep(i) before token i (i = 0: leading text) and trailer after the last one,
// and returns the text together with the position of every token. Separators are ASCII.
func Render(toks []Token, sep func(i int) string, trailer string) (string, []Placed) {
	var b strings.Builder
	off, line, col := 0, 1, 1
	emit := func(s string) {
		b.WriteString(s)
		for _, c := range s {
			off++
			if c == '\n' {
				line++
				col = 1
			} else {
				col++
			}
		}
	}
	placed := make([]Placed, len(toks))
	for i, t := range toks {
		emit(sep(i))
		placed[i] = Placed{Token: t, Offset: off, Line: line, Col: col}
		emit(t.Text)
	}
	emit(trailer)
	return b.String(), placed
}

// TokensOfText tokenizes a text with the reference scanner and returns the tokens with their spelling.
func TokensOfText(text string) ([]Token, error) {
	lt, err := Tokenize(text)
	if err != nil {
		return nil, err
	}
	out := make([]Token, len(lt))
	for i, t := range lt {
		out[i] = Token{Kind: t.Kind, Lexeme: t.Lexeme, Text: t.Lexeme}
		switch t.Kind {
		case "STRING":
			out[i].Text = `"` + t.Lexeme + `"`
		case "REGEX":
			out[i].Text = "/" + t.Lexeme + "/"
		}
	}
	return out, nil
}
