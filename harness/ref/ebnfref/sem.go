package ebnfref

import (
	"sort"
	"strings"
)

// Lang is a set of terminal strings; a string is the terminal names joined by "\x1f" with a leading "\x1f"
// per symbol (so the empty string is ""), which keeps concatenation a plain string concatenation.
type Lang map[string]struct{}

// Sym is the encoding of a one-terminal string.
func Sym(name string) string { return "\x1f" + name }

// Len counts the terminals of an encoded string.
func Len(s string) int { return strings.Count(s, "\x1f") }

func (l Lang) add(s string) bool {
	if _, ok := l[s]; ok {
		return false
	}
	l[s] = struct{}{}
	return true
}

// Sorted lists the strings, shortest first.
func (l Lang) Sorted() []string {
	out := make([]string, 0, len(l))
	for s := range l {
		out = append(out, s)
	}
	sort.Slice(out, func(i, j int) bool {
		if Len(out[i]) != Len(out[j]) {
			return Len(out[i]) < Len(out[j])
		}
		return out[i] < out[j]
	})
	return out
}

// Show renders an encoded string readably.
func Show(s string) string {
	if s == "" {
		return "ε"
	}
	return strings.Join(strings.Split(s[1:], "\x1f"), " ")
}

// Equal compares two languages; on difference it returns a witness and which side has it.
func Equal(a, b Lang) (bool, string, bool) {
	for _, s := range a.Sorted() {
		if _, ok := b[s]; !ok {
			return false, s, true
		}
	}
	for _, s := range b.Sorted() {
		if _, ok := a[s]; !ok {
			return false, s, false
		}
	}
	return true, "", false
}

func catLang(a, b Lang, n int) Lang {
	out := Lang{}
	for x := range a {
		lx := Len(x)
		for y := range b {
			if lx+Len(y) <= n {
				out.add(x + y)
			}
		}
	}
	return out
}

func union(a, b Lang) Lang {
	out := Lang{}
	for x := range a {
		out.add(x)
	}
	for x := range b {
		out.add(x)
	}
	return out
}

func starLang(a Lang, n int) Lang {
	out := Lang{"": {}}
	frontier := Lang{"": {}}
	for len(frontier) > 0 {
		next := Lang{}
		for x := range catLang(frontier, a, n) {
			if out.add(x) {
				next.add(x)
			}
		}
		frontier = next
	}
	return out
}

// TermName is the name emerge gives the terminal an expression leaf denotes.
func TermName(e Expr) string {
	switch v := e.(type) {
	case *Tok:
		return v.Name
	case *Str:
		return v.Lexeme
	}
	return ""
}

// Eval computes the strings of length <= n denoted by e under env (non-terminal -> language).
func Eval(e Expr, env map[string]Lang, n int) Lang {
	switch v := e.(type) {
	case nil, *Eps:
		return Lang{"": {}}
	case *Cat:
		cur := Lang{"": {}}
		for _, o := range v.Ops {
			cur = catLang(cur, Eval(o, env, n), n)
		}
		return cur
	case *Alt:
		out := Lang{}
		for _, o := range v.Ops {
			out = union(out, Eval(o, env, n))
		}
		if v.TrailingEmpty {
			out.add("")
		}
		return out
	case *Group:
		return Eval(v.X, env, n)
	case *Opt:
		return union(Lang{"": {}}, Eval(v.X, env, n))
	case *Star:
		return starLang(Eval(v.X, env, n), n)
	case *Plus:
		x := Eval(v.X, env, n)
		return catLang(x, starLang(x, n), n)
	case *NT:
		if l, ok := env[v.Name]; ok {
			return l
		}
		return Lang{}
	case *Tok, *Str:
		return Lang{Sym(TermName(v)): {}}
	}
	panic("Eval: unknown expression")
}

// Languages computes, as a least fixpoint, the bounded language of every rule head of the specification
// (several rules with the same head contribute alternatives).
func (s *Spec) Languages(n int) map[string]Lang {
	env := map[string]Lang{}
	var rules []*Rule
	addRule := func(r *Rule) {
		rules = append(rules, r)
		if env[r.LHS] == nil {
			env[r.LHS] = Lang{}
		}
	}
	for _, d := range s.Decls {
		switch v := d.(type) {
		case *Rule:
			addRule(v)
		case *Directive:
			// A rule written as a precedence handle is an occurrence of that rule: its alternatives are
			// productions of the grammar (C12: "each such production is one of the grammar's own productions").
			for _, h := range v.Handles {
				if h.Rule != nil {
					addRule(h.Rule)
				}
			}
		}
	}
	for changed := true; changed; {
		changed = false
		for _, r := range rules {
			for x := range Eval(r.RHS, env, n) {
				if env[r.LHS].add(x) {
					changed = true
				}
			}
		}
	}
	return env
}
