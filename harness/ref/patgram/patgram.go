// Package patgram decides membership in the documented pattern grammar (docs/5-definitions.md) as a plain
// context-free grammar: ANY derivation counts, so artefacts of ordered choice are never demanded.
// The recogniser computes, for every grammar node and start position, the set of possible end positions
// (memoised; the grammar has no left recursion and no ε-only cycles).
package patgram

import "github.com/gardenbed/emerge/verif/ref/regexref"

type node interface {
	ends(r *rec, i int) uint64
}

type rec struct {
	in   []rune
	memo map[memoKey]uint64
}

type memoKey struct {
	n *ref
	i int
}

type lit []rune
type class func(rune) bool
type seq []node
type alt []node
type opt struct{ n node }
type plus struct{ n node }
type ref struct {
	name string
	n    node
}

func (l lit) ends(r *rec, i int) uint64 {
	if i+len(l) > len(r.in) {
		return 0
	}
	for k, c := range l {
		if r.in[i+k] != c {
			return 0
		}
	}
	return 1 << uint(i+len(l))
}

func (c class) ends(r *rec, i int) uint64 {
	if i < len(r.in) && c(r.in[i]) {
		return 1 << uint(i+1)
	}
	return 0
}

func (s seq) ends(r *rec, i int) uint64 {
	cur := uint64(1) << uint(i)
	for _, n := range s {
		var next uint64
		for p := 0; p <= len(r.in); p++ {
			if cur&(1<<uint(p)) != 0 {
				next |= n.ends(r, p)
			}
		}
		cur = next
		if cur == 0 {
			return 0
		}
	}
	return cur
}

func (a alt) ends(r *rec, i int) uint64 {
	var out uint64
	for _, n := range a {
		out |= n.ends(r, i)
	}
	return out
}

func (o opt) ends(r *rec, i int) uint64 { return 1<<uint(i) | o.n.ends(r, i) }

func (p plus) ends(r *rec, i int) uint64 {
	// least fixpoint of: one or more n, each consuming at least one character
	var out uint64
	frontier := p.n.ends(r, i) &^ (1 << uint(i))
	for frontier != 0 {
		out |= frontier
		var next uint64
		for q := 0; q <= len(r.in); q++ {
			if frontier&(1<<uint(q)) != 0 {
				next |= p.n.ends(r, q) &^ (1 << uint(q))
			}
		}
		frontier = next &^ out
	}
	return out
}

func (x *ref) ends(r *rec, i int) uint64 {
	k := memoKey{x, i}
	if v, ok := r.memo[k]; ok {
		return v
	}
	r.memo[k] = 0 // cut (no left recursion in this grammar, so never hit on a productive path)
	v := x.n.ends(r, i)
	r.memo[k] = v
	return v
}

func s(x string) lit { return lit([]rune(x)) }

func alts(xs ...string) alt {
	var a alt
	for _, x := range xs {
		a = append(a, s(x))
	}
	return a
}

var top *ref

func init() {
	digit := class(func(c rune) bool { return c >= '0' && c <= '9' })
	hex := class(func(c rune) bool { return (c >= '0' && c <= '9') || (c >= 'A' && c <= 'F') })
	anyc := class(func(c rune) bool { return true }) // char = "all characters"
	unescaped := class(func(c rune) bool { return !regexref.IsEscaped(c) })
	escapedSet := class(func(c rune) bool { return regexref.IsEscaped(c) })

	num := plus{digit}
	asciiChar := seq{s(`\x`), hex, hex}
	unicodeChar := seq{s(`\x`), hex, hex, hex, hex, opt{hex}, opt{hex}, opt{hex}, opt{hex}}
	escapedChar := seq{s(`\`), escapedSet}
	singleChar := alt{unicodeChar, asciiChar, escapedChar, unescaped}
	charClass := alts(`\s`, `\S`, `\d`, `\D`, `\w`, `\W`)
	asciiClass := alts(regexref.ASCIIClassNames...)
	unicodeClass := seq{alts(`\p`, `\P`), s("{"), alts(regexref.UnicodeCategories...), s("}")}
	upper := seq{s(","), opt{num}}
	rng := seq{s("{"), num, opt{upper}, s("}")}
	repetition := alt{s("?"), s("*"), s("+"), rng}
	quantifier := seq{repetition, opt{s("?")}}
	charInRange := alt{unicodeChar, asciiChar, anyc}
	charRange := seq{charInRange, s("-"), charInRange}
	groupItem := alt{unicodeClass, asciiClass, charClass, charRange, singleChar}
	charGroup := seq{s("["), opt{s("^")}, plus{groupItem}, s("]")}
	matchItem := alt{s("."), singleChar, charClass, asciiClass, unicodeClass, charGroup}
	match := seq{matchItem, opt{quantifier}}

	expr := &ref{name: "expr"}
	group := seq{s("("), expr, s(")"), opt{quantifier}}
	item := alt{s("$"), group, match}
	subexpr := plus{item}
	expr.n = seq{subexpr, opt{seq{s("|"), expr}}}
	top = &ref{name: "regex", n: seq{opt{s("^")}, expr}}
}

// Sentence reports whether the whole text is derivable from `regex` in the documented grammar.
func Sentence(text string) bool {
	in := []rune(text)
	if len(in) == 0 || len(in) > 62 {
		return false
	}
	r := &rec{in: in, memo: map[memoKey]uint64{}}
	return top.ends(r, 0)&(1<<uint(len(in))) != 0
}
