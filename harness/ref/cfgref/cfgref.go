// Package cfgref computes bounded languages of plain context-free grammars as produced by emerge.
package cfgref

import (
	"github.com/moorara/algo/grammar"

	"github.com/gardenbed/emerge/verif/ref/ebnfref"
)

// Languages returns, for every non-terminal, the set of terminal strings of length <= n it derives
// (least fixpoint over the productions).
func Languages(g *grammar.CFG, n int) map[string]ebnfref.Lang {
	env := map[string]ebnfref.Lang{}
	for A := range g.NonTerminals.All() {
		env[string(A)] = ebnfref.Lang{}
	}
	type prod struct {
		head string
		body []grammar.Symbol
	}
	var prods []prod
	for p := range g.Productions.All() {
		prods = append(prods, prod{string(p.Head), p.Body})
		if env[string(p.Head)] == nil {
			env[string(p.Head)] = ebnfref.Lang{}
		}
	}
	for changed := true; changed; {
		changed = false
		for _, p := range prods {
			cur := ebnfref.Lang{"": {}}
			for _, s := range p.body {
				next := ebnfref.Lang{}
				var sl ebnfref.Lang
				switch v := s.(type) {
				case grammar.Terminal:
					sl = ebnfref.Lang{ebnfref.Sym(string(v)): {}}
				case grammar.NonTerminal:
					sl = env[string(v)]
				}
				for x := range cur {
					lx := ebnfref.Len(x)
					for y := range sl {
						if lx+ebnfref.Len(y) <= n {
							next[x+y] = struct{}{}
						}
					}
				}
				cur = next
				if len(cur) == 0 {
					break
				}
			}
			for x := range cur {
				if _, ok := env[p.head][x]; !ok {
					env[p.head][x] = struct{}{}
					changed = true
				}
			}
		}
	}
	return env
}
