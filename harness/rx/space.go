package rx

import (
	"fmt"
	"strings"

	"github.com/gardenbed/emerge/verif/ref/bracketref"
	"github.com/gardenbed/emerge/verif/ref/regexref"
)

func AtomsCore() []*regexref.Atom {
	a, b := regexref.Lit('a'), regexref.Lit('b')
	return []*regexref.Atom{a, b, regexref.Dot(), regexref.GroupAtom(false, a, b), regexref.GroupAtom(true, a), regexref.ClassAtom(`\d`)}
}

func QuantsCore() []*regexref.Quant {
	var out []*regexref.Quant
	for _, t := range []string{"?", "*", "+", "{2}", "{1,}", "{0,2}"} {
		out = append(out, regexref.MkQuant(t, false))
	}
	return append(out, regexref.MkQuant("*", true))
}

// allAtoms lists every class, escape and bracket form individually.
func AllAtoms() []*regexref.Atom {
	L := regexref.Lit
	var out []*regexref.Atom
	for _, r := range []rune{'a', 'b', 'c', 'Z', '0', '_', ' ', '~', '!', '"', '\'', '/', '-', ',', ':'} {
		out = append(out, L(r))
	}
	// '^' cannot be escaped with a backslash and is the start anchor in first position: written as \x5E.
	out = append(out, &regexref.Atom{Text: `\x5E`, Set: regexref.Runes('^')})
	for _, r := range regexref.EscapedChars {
		out = append(out, L(r))
	}
	for _, t := range []struct {
		text string
		r    rune
	}{{`\x61`, 'a'}, {`\x0061`, 'a'}, {`\x000061`, 'a'}, {`\x00000061`, 'a'}, {`\x09`, '\t'}, {`\x0A`, '\n'}, {`\x7F`, 0x7F}, {`\x01`, 1},
		{`\xE9`, 0xE9}, {`\x00E9`, 0xE9}, {`\x0100`, 0x100}, {`\x4E00`, 0x4E00}, {`\x01F600`, 0x1F600}, {`\x0001F600`, 0x1F600},
		// code points an implementation may use for its own purposes (an end marker, a sentinel): private-use characters,
		// non-characters, the replacement character, the last code point
		{`\xEEEE`, 0xEEEE}, {`\xE000`, 0xE000}, {`\xF8FF`, 0xF8FF}, {`\xFFFD`, 0xFFFD}, {`\xFFFE`, 0xFFFE}, {`\xFFFF`, 0xFFFF}, {`\x0F0000`, 0xF0000}, {`\x10FFFF`, 0x10FFFF}} {
		out = append(out, &regexref.Atom{Text: t.text, Set: regexref.Runes(t.r)})
	}
	// every spelling of a hexadecimal escape: 2 digits, and 4 to 8 digits with leading zeros, for code points chosen so
	// that every digit position holds letters as well as digits; alone and as the ends of a range
	for _, r := range []rune{0x4A, 0xA0, 0xFF, 0x0A00, 0xABCD, 0xFEFF, 0x1F600, 0xABCDE, 0xFA0B1, 0xFFFFF, 0x10ABCD, 0x10FFFE} {
		var spellings []string
		if r <= 0xFF {
			spellings = append(spellings, fmt.Sprintf(`\x%02X`, r))
		}
		for n := 4; n <= 8; n++ {
			if int64(r) < int64(1)<<(4*uint(n)) {
				spellings = append(spellings, fmt.Sprintf(`\x%0*X`, n, r))
			}
		}
		for _, sp := range spellings {
			out = append(out, &regexref.Atom{Text: sp, Set: regexref.Runes(r)})
			if width := len(sp) - 2; int64(r)+1 >= int64(1)<<(4*uint(width)) {
				continue // the upper end would need one more digit
			}
			out = append(out, regexref.GroupAtom(false, &regexref.Atom{Text: sp + "-" + fmt.Sprintf(`\x%0*X`, len(sp)-2, r+1), Set: regexref.NewSet(regexref.Range{Lo: r, Hi: r + 1})}))
		}
	}
	out = append(out, regexref.Dot())
	for _, c := range []string{`\d`, `\D`, `\w`, `\W`, `\s`, `\S`} {
		out = append(out, regexref.ClassAtom(c))
	}
	for _, c := range regexref.ASCIIClassNames {
		out = append(out, regexref.ClassAtom(c))
	}
	// The categories emerge backs with ASCII tables (every other category is documented as not included):
	// both polarities, outside and inside brackets.
	for _, u := range []struct {
		name string
		set  regexref.CharSet
	}{
		{"Letter", regexref.NewSet(regexref.Range{Lo: 'A', Hi: 'Z'}, regexref.Range{Lo: 'a', Hi: 'z'})},
		{"L", regexref.NewSet(regexref.Range{Lo: 'A', Hi: 'Z'}, regexref.Range{Lo: 'a', Hi: 'z'})},
		{"Lu", regexref.NewSet(regexref.Range{Lo: 'A', Hi: 'Z'})},
		{"Ll", regexref.NewSet(regexref.Range{Lo: 'a', Hi: 'z'})},
	} {
		pos := &regexref.Atom{Text: `\p{` + u.name + `}`, Set: u.set}
		neg := &regexref.Atom{Text: `\P{` + u.name + `}`, Set: u.set.NegASCII()}
		out = append(out, pos, neg, regexref.GroupAtom(false, pos, L('0')), regexref.GroupAtom(false, neg), regexref.GroupAtom(true, pos), regexref.GroupAtom(true, neg, L('0')))
	}
	a, b, c := L('a'), L('b'), L('c')
	G, R, C := regexref.GroupAtom, regexref.RangeAtom, regexref.ClassAtom
	out = append(out,
		G(false, a), G(false, a, b), G(true, a), G(true, a, b), G(false, R('a', 'c')), G(true, R('a', 'c')), G(false, R('a', 'a')),
		G(false, R('a', 'c'), R('0', '2')), G(false, R('a', 'c'), L('x')), G(false, L('x'), R('a', 'c')),
		G(false, C(`\d`)), G(true, C(`\d`)), G(false, C(`\D`)), G(false, C(`\w`), L('-')), G(false, C(`\s`), C(`\S`)), G(true, C(`\s`), C(`\S`)),
		G(false, C(`[:digit:]`), L('x')), G(true, C(`[:alpha:]`)), G(false, C(`[:ascii:]`)), G(true, C(`[:ascii:]`)), G(false, C(`[:space:]`), C(`[:upper:]`)),
		G(false, L('.'), L(']'), L('[')), G(false, L('\\')), G(true, L('\\'), L(']')), G(false, a, L('^')),
		G(false, &regexref.Atom{Text: `\x41-\x43`, Set: regexref.NewSet(regexref.Range{Lo: 'A', Hi: 'C'})}),
		G(false, &regexref.Atom{Text: `\x0041-\x0043`, Set: regexref.NewSet(regexref.Range{Lo: 'A', Hi: 'C'})}),
		G(false, R(0x100, 0x102)), G(false, a, L(0x100)), G(true, L(0x100)), G(false, R('z', 0x100)), G(false, R(0xE9, 0xE9)),
		G(false, R(0x1F600, 0x1F602)), G(true, a, R(0x4E00, 0x4E01)),
		G(false, a, b, c, L('0'), L('_')),
	)
	return out
}

func single(a *regexref.Atom, q *regexref.Quant) *regexref.Item { return &regexref.Item{Atom: a, Q: q} }
func sub(items ...*regexref.Item) *regexref.Sub                 { return &regexref.Sub{Items: items} }
func expr(subs ...*regexref.Sub) *regexref.Expr                 { return &regexref.Expr{Alts: subs} }
func group(e *regexref.Expr, q *regexref.Quant) *regexref.Item  { return &regexref.Item{Group: e, Q: q} }

// contexts embeds one atom in the contexts that expose over-/under-matching at its borders.
func Contexts(at *regexref.Atom) []*regexref.Expr {
	a, b := regexref.Lit('a'), regexref.Lit('b')
	star := regexref.MkQuant("*", false)
	plus := regexref.MkQuant("+", false)
	return []*regexref.Expr{
		expr(sub(single(at, nil))),
		expr(sub(single(at, star))),
		expr(sub(single(a, nil), single(at, nil), single(b, nil))),
		expr(sub(single(at, nil)), sub(single(b, nil))),
		expr(sub(group(expr(sub(single(at, nil))), plus))),
		expr(sub(single(at, nil), single(at, nil))),
	}
}

// quantBodies applies one quantifier to the bodies that distinguish quantifier bugs.
func QuantBodies(q *regexref.Quant) []*regexref.Expr {
	a, b := regexref.Lit('a'), regexref.Lit('b')
	opt := regexref.MkQuant("?", false)
	return []*regexref.Expr{
		expr(sub(single(a, q))),
		expr(sub(single(regexref.Dot(), q))),
		expr(sub(group(expr(sub(single(a, nil), single(b, nil))), q))),
		expr(sub(group(expr(sub(single(a, opt))), q))),
		expr(sub(group(expr(sub(single(a, nil)), sub(single(b, nil))), q))),
		expr(sub(single(b, nil), single(a, q), single(b, nil))),
		expr(sub(single(a, q), single(a, nil))),
		expr(sub(group(expr(sub(single(a, q))), q))),
	}
}

// Space enumerates the pattern space shared by C02 and C10; yield receives each tree with its family name.
func Space(quick bool, yield func(t *regexref.Expr, family string)) (maxFull, maxReduced int) {
	maxSize := 2
	if !quick {
		maxSize = 3
	}
	pools := regexref.Pools{Atoms: AtomsCore(), Quants: QuantsCore()}
	for n, level := range regexref.Trees(pools, maxSize) {
		for _, t := range level {
			yield(t, fmt.Sprintf("trees_size%d", n))
		}
	}
	small := regexref.Pools{Atoms: []*regexref.Atom{regexref.Lit('a'), regexref.Dot()}, Quants: []*regexref.Quant{regexref.MkQuant("?", false), regexref.MkQuant("*", false)}}
	if !quick {
		small.Atoms = append(small.Atoms, regexref.Lit('b'))
		small.Quants = append(small.Quants, regexref.MkQuant("{2}", false))
	}
	for n, level := range regexref.Trees(small, maxSize+1) {
		if n != maxSize+1 {
			continue
		}
		for _, t := range level {
			yield(t, fmt.Sprintf("trees_small_size%d", n))
		}
	}
	for _, at := range AllAtoms() {
		for _, t := range Contexts(at) {
			yield(t, "atoms")
		}
	}
	for _, q := range regexref.AllQuants() {
		for _, t := range QuantBodies(q) {
			yield(t, "quantifiers")
		}
	}
	return maxSize, maxSize + 1
}

// KeywordSpace yields automata with tens of states: every alternation of 2 to maxSize of 12 keywords that share
// prefixes and suffixes, and literals of 10 to 24 characters followed by a choice. (The determinise / minimise / prune /
// renumber chain only has something to get wrong once state numbers have two digits.)
func KeywordSpace(maxSize int, yield func(t *regexref.Expr, family string)) {
	words := []string{"true", "while", "end", "not", "nil", "null", "func", "def", "break", "struct", "var", "then"}
	var cur []string
	var rec func(from int)
	rec = func(from int) {
		if len(cur) >= 2 {
			p := "(" + strings.Join(cur, "|") + ")"
			if t, err := regexref.Parse(p); err == nil {
				yield(t, fmt.Sprintf("keywords%d", len(cur)))
			}
		}
		if len(cur) == maxSize {
			return
		}
		for i := from; i < len(words); i++ {
			cur = append(cur, words[i])
			rec(i + 1)
			cur = cur[:len(cur)-1]
		}
	}
	rec(0)
	for n := 10; n <= 24; n++ {
		for _, tail := range []string{"(cb|da)z", "(ab|ba)+", "[a-c]?(x|yz)"} {
			if t, err := regexref.Parse(strings.Repeat("w", n) + tail); err == nil {
				yield(t, "long_literals")
			}
		}
	}
}

// DeepSpace (thorough tiers, run last): deeper trees over smaller pools - every tree with 5 operator nodes over
// {a, ., b} x {?, *, {2}} (0.39M) and every tree with 5 and 6 operator nodes over {a, b} x {?, *} (0.05M + 0.46M).
func DeepSpace(yield func(t *regexref.Expr, family string)) {
	small := regexref.Pools{Atoms: []*regexref.Atom{regexref.Lit('a'), regexref.Dot(), regexref.Lit('b')}, Quants: []*regexref.Quant{regexref.MkQuant("?", false), regexref.MkQuant("*", false), regexref.MkQuant("{2}", false)}}
	for n, level := range regexref.Trees(small, 5) {
		if n == 5 {
			for _, t := range level {
				yield(t, fmt.Sprintf("trees_small_size%d", n))
			}
		}
	}
	tiny := regexref.Pools{Atoms: []*regexref.Atom{regexref.Lit('a'), regexref.Lit('b')}, Quants: []*regexref.Quant{regexref.MkQuant("?", false), regexref.MkQuant("*", false)}}
	for n, level := range regexref.Trees(tiny, 6) {
		if n >= 5 {
			for _, t := range level {
				yield(t, fmt.Sprintf("trees_tiny_size%d", n))
			}
		}
	}
}

// bracketTokens are the pieces bracket contents are assembled from: plain characters, the characters with a role inside
// brackets (`-`, `^`, `\`), escapes (also as potential range ends), a hexadecimal character and a class.
var bracketTokens = []string{"a", "c", "z", "9", "-", `\\`, `\.`, `\]`, `\`, ".", "$", "^", `\x41`, `\d`}

// BracketTexts visits the bracket group holding every sequence of up to n of the given tokens (not starting with `^`)
// together with the analysis of its derivations in the documented grammar (ref/bracketref).
func BracketTexts(tokens []string, n int, visit func(text string, res bracketref.Result)) {
	var cur []string
	var rec func(k int)
	rec = func(k int) {
		if len(cur) > 0 {
			text := "[" + strings.Join(cur, "") + "]"
			visit(text, bracketref.Analyse(text))
		}
		if k == 0 {
			return
		}
		for _, t := range tokens {
			if len(cur) == 0 && t == "^" {
				continue
			}
			cur = append(cur, t)
			rec(k - 1)
			cur = cur[:len(cur)-1]
		}
	}
	rec(n)
}

// Demanded reports whether a bracket group must be accepted with one particular meaning: all of its derivations in the
// documented grammar are valid and denote the same set (the grammar read as a context-free grammar), AND reading the
// grammar as written - alternatives in their documented order, items consumed greedily - arrives at that same set
// (ref/regexref's parser). Where the two readings part ways (`[za-]`: the greedy reading takes `a-]` for a range and
// then misses the closing bracket) the form is not "unambiguous" and nothing is demanded.
func Demanded(text string, res bracketref.Result) (regexref.CharSet, bool) {
	if !res.Unambiguous() {
		return nil, false
	}
	t, err := regexref.Parse(text)
	if err != nil || len(t.Alts) != 1 || len(t.Alts[0].Items) != 1 || t.Alts[0].Items[0].Atom == nil {
		return nil, false
	}
	if t.Alts[0].Items[0].Atom.Set.Key() != res.Sets[0].Key() {
		return nil, false
	}
	return res.Sets[0], true
}

// BracketTokens returns the tokens of BracketSpace.
func BracketTokens() []string { return append([]string{}, bracketTokens...) }

// BracketSpace yields, for every sequence of up to n bracket tokens (not starting with `^`), the bracket group holding
// it - as an atom with the set it denotes - when the group is in an unambiguous form: every derivation in the documented
// grammar is valid and all derivations denote the same set (ref/bracketref). ambiguous counts the others.
func BracketSpace(n int, yield func(a *regexref.Atom)) (groups, ambiguous int) {
	BracketTexts(bracketTokens, n, func(text string, res bracketref.Result) {
		groups++
		if set, ok := Demanded(text, res); ok {
			yield(&regexref.Atom{Text: text, Set: set})
		} else if res.Derivations > 0 {
			ambiguous++
		}
	})
	return
}

// BracketSpaceU is BracketSpace over tokens beyond ASCII: three hexadecimal characters above U+007F in both orders,
// two around U+007F (so that ranges straddle the end of ASCII), `-`, a plain character and (not first) `^`.
func BracketSpaceU(n int, yield func(a *regexref.Atom)) {
	BracketTexts([]string{"a", "-", `\x03B1`, `\x03B2`, `\x00E9`, `\x7E`, `\x0081`}, n, func(text string, res bracketref.Result) {
		if set, ok := Demanded(text, res); ok {
			yield(&regexref.Atom{Text: text, Set: set})
		}
		if neg := "[^" + text[1:]; true {
			if set, ok := Demanded(neg, bracketref.Analyse(neg)); ok {
				yield(&regexref.Atom{Text: neg, Set: set})
			}
		}
	})
}

// AtomExpr wraps an atom as a whole pattern.
func AtomExpr(a *regexref.Atom) *regexref.Expr { return expr(sub(single(a, nil))) }

// SequenceSpace yields sequences of two (quick) and three quantified items: every item is a character or a group
// (`(ab)`, `(a|b)`, `(a?b)`, `(a|b?)`) under no quantifier or one of `+ * ? {2,} {1,} {1,2} +?`; the items of a sequence
// use different letters (a b, c d, then a b again), so that an automaton in which one item's loop leaks into its
// neighbour's accepts texts the pattern does not denote. Two items: all 1600 pairs; three: the open-ended quantifiers
// over three bodies (1728 triples).
func SequenceSpace(quick bool, yield func(t *regexref.Expr, family string)) {
	bodies := []string{"a", "(ab)", "(a|b)", "(a?b)", "(a|b?)"}
	quants := []string{"", "+", "*", "?", "{2,}", "{1,}", "{1,2}", "+?"}
	relabel := func(s string, k int) string {
		if k%2 == 1 {
			s = strings.ReplaceAll(strings.ReplaceAll(s, "a", "c"), "b", "d")
		}
		return s
	}
	var items []string
	for _, b := range bodies {
		for _, q := range quants {
			items = append(items, b+q)
		}
	}
	emit := func(text, family string) {
		t, err := regexref.Parse(text)
		if err != nil {
			panic(fmt.Sprintf("SequenceSpace: reference cannot read %q: %v", text, err))
		}
		yield(t, family)
	}
	for _, x := range items {
		for _, y := range items {
			emit(relabel(x, 0)+relabel(y, 1), "sequences_of_two_quantified_items")
		}
	}
	if quick {
		return
	}
	var open []string
	for _, b := range []string{"(ab)", "(a|b)", "a"} {
		for _, q := range []string{"+", "*", "{1,}", "{2,}"} {
			open = append(open, b+q)
		}
	}
	for _, x := range open {
		for _, y := range open {
			for _, z := range open {
				emit(relabel(x, 0)+relabel(y, 1)+relabel(z, 2), "sequences_of_three_quantified_items")
			}
		}
	}
}

// OverlapSpace yields sequences of two and three quantified character classes that OVERLAP (`[a-c]`, `[ab]`, `[a-d]`,
// `[b-d]`, a plain `a`): one input symbol then stands at several positions of one pattern, and - under `*`, `+`, `{2}`,
// `{1,2}`, `{2,}` - at several positions of one automaton state. Pairs over all five classes and seven quantifiers
// (1225); triples over three classes and five quantifiers (3375), thorough: over four classes and six quantifiers.
func OverlapSpace(quick bool, yield func(t *regexref.Expr, family string)) {
	emit := func(text, family string) {
		t, err := regexref.Parse(text)
		if err != nil {
			panic(fmt.Sprintf("OverlapSpace: reference cannot read %q: %v", text, err))
		}
		yield(t, family)
	}
	mk := func(classes, quants []string) []string {
		var items []string
		for _, c := range classes {
			for _, q := range quants {
				items = append(items, c+q)
			}
		}
		return items
	}
	pairs := mk([]string{"[a-c]", "[ab]", "[a-d]", "[b-d]", "a"}, []string{"", "*", "+", "?", "{2}", "{1,2}", "{2,}"})
	for _, x := range pairs {
		for _, y := range pairs {
			emit(x+y, "overlapping_classes_two_items")
		}
	}
	triples := mk([]string{"[a-c]", "[ab]", "[a-d]"}, []string{"", "*", "{2}", "{1,2}", "{2,}"})
	if !quick {
		triples = mk([]string{"[a-c]", "[ab]", "[a-d]", "[b-d]"}, []string{"", "*", "+", "{2}", "{1,2}", "{2,}"})
	}
	for _, x := range triples {
		for _, y := range triples {
			for _, z := range triples {
				emit(x+y+z, "overlapping_classes_three_items")
			}
		}
	}
}

// NestedQuantSpace yields a quantified group under a second quantifier, for every ordered pair of the non-lazy
// quantifier forms (19 x 19) and, for the four basic ones, every lazy / greedy combination: `(a<q1>)<q2>` alone and
// between two other characters, and `(ab<q1>)<q2>c`.
func NestedQuantSpace(yield func(t *regexref.Expr, family string)) {
	a, b, c := regexref.Lit('a'), regexref.Lit('b'), regexref.Lit('c')
	var plain, basic []*regexref.Quant
	for _, q := range regexref.AllQuants() {
		if !q.Lazy {
			plain = append(plain, q)
		}
		if q.Text == "?" || q.Text == "*" || q.Text == "+" || q.Text == "{1,2}" {
			basic = append(basic, q)
		}
	}
	emit := func(q1, q2 *regexref.Quant) {
		yield(expr(sub(group(expr(sub(single(a, q1))), q2))), "nested_quantifiers")
		yield(expr(sub(single(b, nil), group(expr(sub(single(a, q1))), q2), single(b, nil))), "nested_quantifiers")
		yield(expr(sub(group(expr(sub(single(a, nil), single(b, q1))), q2), single(c, nil))), "nested_quantifiers")
	}
	for _, q1 := range plain {
		for _, q2 := range plain {
			emit(q1, q2)
		}
	}
	for _, q1 := range basic {
		for _, q2 := range basic {
			if q1.Lazy || q2.Lazy {
				emit(q1, q2)
			}
		}
	}
}

// PrefixAltSpace yields alternations whose branches are prefixes of one another (every 2 and 3 of `a`, `ab`, `aa`,
// `aab`, `b`, `ba`, in the order written and reversed), under no quantifier, `*`, `+`, `?` and `{2}`, alone and
// followed by `b`, `c` or a second such group: every way of splitting a text must be found.
func PrefixAltSpace(yield func(t *regexref.Expr, family string)) {
	words := []string{"a", "ab", "aa", "aab", "b", "ba"}
	var groups []string
	for i := range words {
		for j := range words {
			if i == j {
				continue
			}
			groups = append(groups, "("+words[i]+"|"+words[j]+")")
			for k := j + 1; k < len(words); k++ {
				if k != i && i < j {
					groups = append(groups, "("+words[i]+"|"+words[j]+"|"+words[k]+")", "("+words[k]+"|"+words[j]+"|"+words[i]+")")
				}
			}
		}
	}
	for gi, g := range groups {
		for _, q := range []string{"", "*", "+", "?", "{2}"} {
			for _, tail := range []string{"", "b", "c", "(a|ab)"} {
				if tail == "(a|ab)" && gi%3 != 0 {
					continue
				}
				t, err := regexref.Parse(g + q + tail)
				if err != nil {
					panic(fmt.Sprintf("PrefixAltSpace: reference cannot read %q: %v", g+q+tail, err))
				}
				yield(t, "alternations_of_prefixes")
			}
		}
	}
}

// CountSpace yields counted repetitions with every pair of bounds n <= m <= 6, `{n}` and `{n,}` up to 6 (plain and
// lazy), over a character, a group, a class and a nullable group, alone and between two other characters.
func CountSpace(yield func(t *regexref.Expr, family string)) {
	var quants []string
	for n := 0; n <= 6; n++ {
		quants = append(quants, fmt.Sprintf("{%d}", n), fmt.Sprintf("{%d,}", n))
		for m := n; m <= 6; m++ {
			quants = append(quants, fmt.Sprintf("{%d,%d}", n, m))
		}
	}
	// (the last bodies begin with a repeatable part and have branches that are prefixes of one another or an optional
	// tail: their automata have an edge back into the start state and an edge out of an accepting state)
	for _, body := range []string{"a", "(ab)", "[ab]", "(a?)", "(a|bc)", "(a*b)", "(ab*)", "(a*b|a*bc)", "(a+b?)", "(b*a|b*ac)"} {
		for _, q := range quants {
			for _, form := range []string{"%s%s", "b%s%sc", "%s%s?a"} {
				text := fmt.Sprintf(form, body, q)
				t, err := regexref.Parse(text)
				if err != nil {
					panic(fmt.Sprintf("CountSpace: reference cannot read %q: %v", text, err))
				}
				yield(t, "counted_repetitions")
			}
		}
	}
}
