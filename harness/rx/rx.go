// Package rx holds the pattern-level oracle shared by C02, C03 and C10: build the real automata for a pattern
// and compare them with the reference by exploring the product automaton.
package rx

import (
	"fmt"

	auto "github.com/moorara/algo/automata"

	"github.com/gardenbed/emerge/internal/ebnf/parser/spec"
	rast "github.com/gardenbed/emerge/internal/regex/parser/ast"
	"github.com/gardenbed/emerge/internal/regex/parser/nfa"
	"github.com/gardenbed/emerge/verif/ref/dfaops"
	"github.com/gardenbed/emerge/verif/ref/regexref"
)

// Probes are the non-ASCII code points added to every exploration alphabet.
var Probes = []rune{0xE9, 0x100, 0x4E00, 0x1F600}

// Alphabet returns 1..127 (NUL excluded: it is the reader's and the library's reserved symbol), the probes, and
// for every non-ASCII range boundary in sets the boundary and its outer neighbours.
func Alphabet(sets map[string]regexref.CharSet) []rune {
	seen := map[rune]bool{}
	var out []rune
	add := func(r rune) {
		if r >= 1 && r <= 0x10FFFF && !seen[r] {
			seen[r] = true
			out = append(out, r)
		}
	}
	for r := rune(1); r <= 127; r++ {
		add(r)
	}
	for _, r := range Probes {
		add(r)
	}
	for _, s := range sets {
		for _, g := range s {
			if g.Hi > 127 {
				add(g.Lo - 1)
				add(g.Lo)
				add(g.Hi)
				add(g.Hi + 1)
			}
		}
	}
	return out
}

// Routes selects which real constructions are compared with the reference.
type Routes struct{ NFA, Pipeline, AST bool }

// Outcome of checking one pattern.
type Outcome struct {
	Text        string
	OK          bool
	Class       string // known-finding predicate that explains the discrepancy ("" = unexplained)
	Msg         string
	States      int
	Transitions int
	Machines    int
	More        []Outcome // further deviating automata for the same pattern
}

func safely(f func()) (p any) {
	defer func() { p = recover() }()
	f()
	return nil
}

// PipelineDFA runs the exact token pipeline (regexToDFA + CombineDFA + winner selection) for one pattern.
func PipelineDFA(text string) (*auto.DFA, map[string][]auto.State, error) {
	s := &spec.Spec{Definitions: []*spec.TerminalDef{{Terminal: "T", Value: text, IsRegex: true}}}
	d, tm, err := s.DFA()
	if err != nil {
		return nil, nil, err
	}
	m := map[string][]auto.State{}
	for k, v := range tm {
		m[string(k)] = v
	}
	return d, m, nil
}

// CheckTree compares the real automata for tree t with the reference language of t.
func CheckTree(t *regexref.Expr, routes Routes) Outcome {
	text := t.String()
	out := Outcome{Text: text}
	var names []string
	var impl []dfaops.Machine
	fail := func(class, format string, a ...any) Outcome {
		out.OK, out.Class, out.Msg = false, class, fmt.Sprintf("pattern %q: ", text)+fmt.Sprintf(format, a...)
		return out
	}
	if routes.NFA {
		var n *auto.NFA
		var err error
		if p := safely(func() { n, err = nfa.Parse(text) }); p != nil {
			return fail("", "nfa.Parse panicked: %v", p)
		}
		if err != nil {
			return fail("", "nfa.Parse rejects a pattern written with documented constructs: %v", err)
		}
		impl = append(impl, dfaops.FromNFA(n))
		names = append(names, "nfa.Parse")
	}
	if routes.Pipeline {
		var d *auto.DFA
		var err error
		if p := safely(func() { d, _, err = PipelineDFA(text) }); p != nil {
			return fail("", "Spec.DFA panicked: %v", p)
		}
		if err != nil {
			return fail("", "Spec.DFA rejects a pattern written with documented constructs: %v", err)
		}
		impl = append(impl, dfaops.FromDFA(d))
		names = append(names, "Spec.DFA")
	}
	if routes.AST {
		var d *auto.DFA
		var err error
		if p := safely(func() {
			var a *rast.AST
			a, err = rast.Parse(text)
			if err == nil {
				d = a.ToDFA()
			}
		}); p != nil {
			return fail("", "ast.Parse/ToDFA panicked: %v", p)
		}
		if err != nil {
			return fail("", "ast.Parse rejects a pattern written with documented constructs: %v", err)
		}
		impl = append(impl, dfaops.FromDFA(d))
		names = append(names, "ast.ToDFA")
	}
	c := regexref.NewCtx()
	ref := t.Lang(c, false)
	sets := map[string]regexref.CharSet{}
	c.Sets(ref, sets)
	alpha := Alphabet(sets)
	ms := append([]dfaops.Machine{c.Machine(ref)}, impl...)
	res := dfaops.Compare(ms, alpha, 0)
	out.States, out.Transitions, out.Machines = res.States, res.Transitions, len(ms)
	if res.Equal {
		out.OK = true
		return out
	}
	// Classify every deviating machine on its own (pairwise with the reference).
	// Known-finding predicate "nul-epsilon": the pattern contains a class holding rune 0 and the deviating
	// automaton (NFA-based routes only) accepts exactly the language in which each such class may also match
	// the empty string. Anything else is unexplained.
	var c2 *regexref.Ctx
	var alt *regexref.Re
	if t.HasNulClass() {
		c2 = regexref.NewCtx()
		alt = t.Lang(c2, true)
	}
	out.OK = false
	first := true
	for i, m := range impl {
		r1 := dfaops.Compare([]dfaops.Machine{c.Machine(ref), m}, alpha, 0)
		if r1.Equal {
			continue
		}
		class := ""
		if alt != nil && names[i] != "ast.ToDFA" {
			if r2 := dfaops.Compare([]dfaops.Machine{c2.Machine(alt), m}, alpha, 0); r2.Equal {
				class = "nul-epsilon"
			}
		}
		msg := fmt.Sprintf("pattern %q: %s and the reference disagree on %s (reference accepts=%v)", text, names[i], dfaops.Quote(r1.Witness), r1.Verdicts[0])
		if first {
			out.Class, out.Msg = class, msg
			first = false
		} else {
			out.More = append(out.More, Outcome{Text: text, Class: class, Msg: msg})
		}
	}
	return out
}
