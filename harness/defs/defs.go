// Package defs holds the pool of terminal definitions shared by the checks that emit and run lexers.
package defs

import (
	"fmt"
	"strings"

	"github.com/gardenbed/emerge/verif/ref/regexref"
)

// Def is one terminal definition. For a literal, Src is the text between the quotes as written in a
// specification (escapes unresolved); for a predefined pattern, Src is the $NAME.
type Def struct {
	Name    string
	Src     string
	Literal bool
	Predef  bool
	// Implicit: a literal that is not declared as a named token but written as "..." in the start rule, so that
	// the terminal's NAME is the literal text itself.
	Implicit bool
}

// Unescape resolves the backslash escapes of a string literal.
func Unescape(s string) string {
	var b strings.Builder
	esc := false
	for _, c := range s {
		if c == '\\' && !esc {
			esc = true
			continue
		}
		esc = false
		b.WriteRune(c)
	}
	return b.String()
}

// Predefs are the predefined patterns as documented (docs/5-definitions.md): name -> pattern. The reference side of a
// comparison reads a predefined name through this table, never through the implementation's own.
var Predefs = map[string]string{
	"$WS":      `[\x09\x0A\x0D\x20]`,
	"$DIGIT":   `[0-9]`,
	"$LETTER":  `[A-Za-z]`,
	"$ID":      `[A-Za-z_][0-9A-Za-z_]*`,
	"$NUMBER":  `-?[0-9]+(\.[0-9]+)?`,
	"$STRING":  `"([\x21\x23-\x5B\x5D-\x7E]|\\[\x21-\x7E])+"`,
	"$COMMENT": `(#|//)[\x09\x20-\x7E]*|/\*[\x09\x0A\x0D\x20-\x7E]*?\*/`,
}

// Pattern returns the pattern text of a non-literal definition.
func (d Def) Pattern() string {
	if d.Predef {
		return Predefs[d.Src]
	}
	return d.Src
}

// Ref builds the reference expression of a definition.
func (d Def) Ref(c *regexref.Ctx) (*regexref.Re, error) {
	if d.Literal {
		var parts []*regexref.Re
		for _, ch := range Unescape(d.Src) {
			parts = append(parts, c.Sym(regexref.Runes(ch)))
		}
		return c.CatN(parts...), nil
	}
	t, err := regexref.Parse(d.Pattern())
	if err != nil {
		return nil, err
	}
	return t.Lang(c, false), nil
}

// SpecText writes a specification that defines ds as named tokens and uses all of them.
func SpecText(name string, ds []Def) string {
	var b strings.Builder
	fmt.Fprintf(&b, "grammar %s ;\n", name)
	var names []string
	for _, d := range ds {
		switch {
		case d.Implicit:
			names = append(names, `"`+d.Src+`"`)
			continue
		case d.Literal:
			fmt.Fprintf(&b, "%s = \"%s\" ;\n", d.Name, d.Src)
		case d.Predef:
			fmt.Fprintf(&b, "%s = %s ;\n", d.Name, d.Src)
		default:
			fmt.Fprintf(&b, "%s = /%s/ ;\n", d.Name, strings.ReplaceAll(d.Src, "/", `\/`))
		}
		names = append(names, d.Name)
	}
	fmt.Fprintf(&b, "start = %s ;\n", strings.Join(names, " "))
	return b.String()
}

// Sets are the definition sets used as emitted programs: every relation between definitions, everything that
// needs escaping in Go source, terminals owning no state, Go keywords as terminal text, multi-byte characters.
func Sets() [][]Def {
	L := func(name, src string) Def { return Def{Name: name, Src: src, Literal: true} }
	P := func(name, src string) Def { return Def{Name: name, Src: src} }
	D := func(name, src string) Def { return Def{Name: name, Src: src, Predef: true} }
	I := func(src string) Def { return Def{Name: src, Src: src, Literal: true, Implicit: true} }
	return [][]Def{
		{I("`"), I("a`b"), I("if"), I("'"), I(`\"`), I(`\\`), I("%d"), I("{{"), P("ID", "[a-z]+")},
		{I("+"), I("-"), I("*"), I("/"), I("("), I(")"), I("<="), I("!="), I("$"), I("#"), I("?"), D("NUMBER", "$NUMBER"), D("WS", "$WS")},
		{L("KIF", "if"), L("KIN", "in"), P("ID", "[a-z]+"), P("NUM", "[0-9]+"), D("WS", "$WS")},
		// tokens and skipped tokens that span several lines: a skipped WS of blanks and newlines, a bracketed block that
		// may hold newlines, a statement end swallowing the newlines behind it
		{P("WS", `[\x20\x0A]+`), P("BLK", `<[a\x0A]*>`), P("ID", "[a-z]+"), P("EOL", `;\x0A*`)},
		// terminals whose names merely contain the names of the skipped terminals, next to the skipped ones themselves
		{P("WSX", "1+"), P("XWS", "2+"), P("EOLS", "3+"), P("COMMENTS", "4+"), P("WS", "5+"), P("EOL", "6+"), P("COMMENT", "7+"), P("ID", "[a-z]+")},
		// literals that close or open a comment, for the emitted files that quote the grammar
		{I("*/"), I("/*"), I("//"), I("*/x/*"), L("OPEN", "/**"), P("ID", "[a-z]+")},
		{L("EQ", "="), L("EQEQ", "=="), P("EQS", "=+x"), P("INT", "[0-9]+"), P("FLT", `[0-9]+\.[0-9]+`)},
		{L("SQ", "'"), L("BS", `\\`), L("DQ", `\"`), P("ANYQ", `['"]x`)},
		{P("TAB", `\x09+`), P("EAC", `\x00E9+`), P("PRN", `[\x21-\x2F]+y`), P("EMO", `\x01F600`), L("LET", "let")},
		{L("KFUNC", "func"), L("KTYPE", "type"), L("KGO", "go"), D("ID", "$ID"), D("WS", "$WS"), D("COMMENT", "$COMMENT")},
		{L("LET", "let"), L("LE", "le"), L("LL", "l"), P("LID", "l[a-z]*")}, // literals fully shadowing nothing; prefixes
		{L("AB", "ab"), P("SHADOW", "a(b)"), P("ABS", "ab+")},               // SHADOW owns no state
		// a terminal owning no state at each position of the definition order (first, middle, two in a row)
		{L("IF", "if"), L("DO", "do"), P("KW", "if|do"), P("NUM", "[0-9]+"), P("WORD", "[a-z]+")},
		{L("IF", "if"), L("DO", "do"), P("KWD", "if|do"), P("NM", "[0-9]+"), P("WORD", "[a-z]+")},
		{L("AB", "ab"), P("AA", "(a)b"), P("AC", "a(b)"), P("ABS", "ab+"), P("ZZZ", "z+")},
		{I("if"), I("do"), P("KW", "if|do"), P("NUM", "[0-9]+"), P("WORD", "[a-z]+")},
		{D("NUMBER", "$NUMBER"), D("STRING", "$STRING"), D("EOL", "$WS"), L("MINUS", "-")},
		{P("AA", "a"), P("BC", "b|c"), P("CD", "(cd)+"), P("OPT", "e?f")},
		{L("SEMI", ";"), L("LB", "{"), L("RB", "}"), L("LLB", "{{"), P("WORD", `\w+`), P("SP", `[ \x09]+`)},
		{D("ID", "$ID"), D("NUMBER", "$NUMBER"), L("PLUS", "+"), L("STAR", "*"), L("LP", "("), L("RP", ")"), D("WS", "$WS")},
		{P("UP", "[A-Z][a-z]*"), P("DIGITS", `\d{2,3}`), L("AT", "@"), L("HASH", "#")},
		{P("HEX", "[0-9a-f]+"), P("B32", "[A-Z2-7]+x"), P("S64", `[0-9A-Za-z_#]y`), P("S8", "[a-h]z"), P("S15", "[a-o]!"), P("S17", "[a-q]#"), P("S31", `[A-Z1-5]%`), P("S33", `[A-Z1-7]&`), P("S48", `[0-9A-Za-l]~`)},
		// an automaton with more than 64 (and more than 128) states whose late states are entered on whole character classes
		{P("KA", `a[0-9][0-9][0-9][0-9][0-9][0-9]`), P("KB", `b[0-9][0-9][0-9][0-9][0-9][0-9]`), P("KC", `c[a-f][a-f][a-f][a-f][a-f][a-f]`), P("KD", `d[0-9][0-9][0-9][0-9][0-9][0-9]`),
			P("KE", `e[x-z][x-z][x-z][x-z][x-z][x-z]`), P("KF", `f[0-9][0-9][0-9][0-9][0-9][0-9]`), P("KG", `g[0-9a-f][0-9a-f][0-9a-f][0-9a-f][0-9a-f][0-9a-f]`), P("KH", `h[0-9][0-9][0-9][0-9][0-9][0-9]`),
			P("KI", `i[0-9][0-9]:[0-9][0-9](:[0-9][0-9])?`), P("KJ", `j[0-9][0-9][0-9][0-9][0-9][0-9]`), P("KK", `k[0-9][0-9][0-9][0-9][0-9][0-9]`), P("KL", `l[0-9][0-9][0-9][0-9][0-9][0-9]`),
			P("KM", `m[0-9][0-9][0-9][0-9][0-9][0-9]`), P("KN", `n[0-9][0-9][0-9][0-9][0-9][0-9]`), P("KO", `o[0-9][0-9][0-9][0-9][0-9][0-9]`), P("KP", `p[0-9][0-9][0-9][0-9][0-9][0-9]`),
			P("KQ", `q[0-9][0-9][0-9][0-9][0-9][0-9]`), P("KR", `r[0-9][0-9][0-9][0-9][0-9][0-9]`), P("KS", `s[0-9][0-9][0-9][0-9][0-9][0-9]`), P("KT", `t[0-9][0-9][0-9][0-9][0-9][0-9]`)},
		{}, // no terminal at all: `start = ;`
		{L("BQ", "`"), L("ABQ", "a`b"), L("TRI", "```"), L("DOLLAR", "$"), L("PCT", "%d"), L("NL", `\n`), L("BRACES", "{{}}")},
		{L("P1", "!"), L("P2", "#"), L("P3", "&"), L("P4", "'"), L("P5", "*"), L("P6", ","), L("P7", "."), L("P8", "/"), L("P9", ":"), L("PA", "<"), L("PB", ">"), L("PC", "?"), L("PD", "["), L("PE", "]"), L("PF", "^"), L("PG", "_"), L("PH", "|"), L("PI", "~"), L("PJ", `\\n`), L("PK", `\"\"`)},
		// one terminal owning more than 16 and more than 32 accepting states (an identifier next to many keywords: every
		// proper prefix of a keyword is an identifier)
		{L("KWHILE", "while"), L("KRETURN", "return"), L("KFUNCTION", "function"), L("KIF", "if"), L("KELSE", "else"), P("ID", "[a-z]+")},
		{L("KWHILE", "while"), L("KRETURN", "return"), L("KFUNCTION", "function"), L("KINTERFACE", "interface"), L("KCONTINUE", "continue"), L("KDEFAULT", "default"), L("KPACKAGE", "package"), P("ID", "[a-z]+"), D("WS", "$WS")},
		// one terminal per control character (and DEL, the quote, the backslash): each must be written into the emitted
		// source as itself
		controlSet(),
		// terminals that also match the empty text: the start state is accepting and its terminal owns further states
		{P("NUM", "[0-9]*"), P("ID", "[a-z]+")},
		{P("REP", "(ab)*"), L("KX", "x")},
		{P("SIGN", `(\+|-)?x?`), P("WORD", "[a-z][a-z]+")},
		{P("OPT", "a?")},
		{P("LAST", "[a-z]+"), P("MID", "[0-9]+"), P("NUL", "(_)*")},
		// groups of consecutive code points that end at, start at or cross a border: ASCII / two-byte / three-byte /
		// four-byte encodings, the gap of the surrogates, the largest code point; groups that contain, start with or
		// end in the quote and the backslash; single characters at the borders
		{P("BA", `a[\x7D-\x7F]`), P("BB", `b[\x0080-\x0082]`), P("BC", `c[\x7E-\x0081]`), P("BD", `d[\x07FE-\x0801]`), P("BE", `e[\xD7FD-\xD7FF]`),
			P("BF", `f[\xE000-\xE002]`), P("BG", `g[\xFFFD-\xFFFF]`), P("BH", `h[\xFFFE-\x010001]`), P("BI", `i[\x10FFFD-\x10FFFF]`), P("BJ", `j\x10FFFF`),
			P("BK", `k\xD7FF`), P("BL", `l\xE000`), P("BM", `m[\x26-\x28]`), P("BN", `n[\x5B-\x5D]`), P("BO", `o[\x21-\x27]`), P("BP", `p[\x5A-\x5C]`),
			P("BQ", `q[\x27-\x29]`), P("BR", `r[\x5C-\x5E]`), P("BS", `s[\xD7FE-\xE001]`), P("BT", `t[\x01-\x03]`), P("BU", `u[\x10FFFE-\x10FFFF]+`)},
		// terminal names holding TWO of the characters that need care in Go source, in both orders: every ordered pair of
		// double quote, backslash, back-quote, single quote, percent sign, braces and dollar sign
		awkwardPairs(),
	}
}

func awkwardPairs() []Def {
	parts := []string{`\"`, `\\`, "`", "'", "%", "{{", "}}", "$"}
	var out []Def
	for _, a := range parts {
		for _, b := range parts {
			src := a + b
			out = append(out, Def{Name: src, Src: src, Literal: true, Implicit: true})
		}
	}
	return append(out, Def{Name: "ID", Src: "[a-z]+"})
}

func controlSet() []Def {
	var out []Def
	for c := 1; c <= 0x1F; c++ {
		out = append(out, Def{Name: fmt.Sprintf("CT%02X", c), Src: fmt.Sprintf(`\x%02X`, c)})
	}
	return append(out, Def{Name: "CT7F", Src: `\x7F`}, Def{Name: "CTSQ", Src: `'`}, Def{Name: "CTBS", Src: `\\`}, Def{Name: "CTLS", Src: `\x2028`}, Def{Name: "CTBOM", Src: `\xFEFF`})
}

// MoreSets returns further definition sets for the thorough tiers: every pair and every consecutive triple of a pool
// chosen so that literals and patterns overlap, nest and share prefixes.
func MoreSets() [][]Def {
	L := func(name, src string) Def { return Def{Name: name, Src: src, Literal: true} }
	P := func(name, src string) Def { return Def{Name: name, Src: src} }
	D := func(name, src string) Def { return Def{Name: name, Src: src, Predef: true} }
	pool := []Def{
		L("KIF", "if"), L("KI", "i"), L("EQ", "="), L("EQEQ", "=="), L("DQ", `\"`), L("BSL", `\\`), L("SQ", "'"),
		P("LOW", "[a-z]+"), P("IX", "i[a-z]"), P("EQS", "=+"), P("INT", "[0-9]+"), P("TABS", `\x09+`), P("UNI", `[\x00E9\x4E00]+`),
		D("ID", "$ID"), D("NUMBER", "$NUMBER"), D("WS", "$WS"),
	}
	var out [][]Def
	for i := range pool {
		for j := i + 1; j < len(pool); j++ {
			out = append(out, []Def{pool[i], pool[j]})
		}
	}
	for i := 0; i+2 < len(pool); i++ {
		out = append(out, []Def{pool[i], pool[i+1], pool[i+2]})
	}
	return out
}
