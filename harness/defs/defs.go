// Package defs holds the pool of terminal definitions shared by the checks that emit and run lexers.
package defs

import (
	"fmt"
	"strings"

	"github.com/gardenbed/emerge/internal/ebnf/parser"
	"github.com/gardenbed/emerge/verif/ref/regexref"
)

// Def is one terminal definition. For a literal, Src is the text between the quotes as written in a
// specification (escapes unresolved); for a predefined pattern, Src is the $NAME.
type Def struct {
	Name    string
	Src     string
	Literal bool
	Predef  bool
}

// Unescape resolves the backslash escapes of a string literal.
func Unescape(s string) string {
	var b strings.Builder
	esc := false
	for _, c := range s {
		if c == '\\' && !esc {
			esc = true
			continue
		}
		esc = false
		b.WriteRune(c)
	}
	return b.String()
}

// Pattern returns the pattern text of a non-literal definition.
func (d Def) Pattern() string {
	if d.Predef {
		return parser.Predefs[d.Src]
	}
	return d.Src
}

// Ref builds the reference expression of a definition.
func (d Def) Ref(c *regexref.Ctx) (*regexref.Re, error) {
	if d.Literal {
		var parts []*regexref.Re
		for _, ch := range Unescape(d.Src) {
			parts = append(parts, c.Sym(regexref.Runes(ch)))
		}
		return c.CatN(parts...), nil
	}
	t, err := regexref.Parse(d.Pattern())
	if err != nil {
		return nil, err
	}
	return t.Lang(c, false), nil
}

// SpecText writes a specification that defines ds as named tokens and uses all of them.
func SpecText(name string, ds []Def) string {
	var b strings.Builder
	fmt.Fprintf(&b, "grammar %s ;\n", name)
	var names []string
	for _, d := range ds {
		switch {
		case d.Literal:
			fmt.Fprintf(&b, "%s = \"%s\" ;\n", d.Name, d.Src)
		case d.Predef:
			fmt.Fprintf(&b, "%s = %s ;\n", d.Name, d.Src)
		default:
			fmt.Fprintf(&b, "%s = /%s/ ;\n", d.Name, strings.ReplaceAll(d.Src, "/", `\/`))
		}
		names = append(names, d.Name)
	}
	fmt.Fprintf(&b, "start = %s ;\n", strings.Join(names, " "))
	return b.String()
}

// Sets are the definition sets used as emitted programs: every relation between definitions, everything that
// needs escaping in Go source, terminals owning no state, Go keywords as terminal text, multi-byte characters.
func Sets() [][]Def {
	L := func(name, src string) Def { return Def{name, src, true, false} }
	P := func(name, src string) Def { return Def{name, src, false, false} }
	D := func(name, src string) Def { return Def{name, src, false, true} }
	return [][]Def{
		{L("KIF", "if"), L("KIN", "in"), P("ID", "[a-z]+"), P("NUM", "[0-9]+"), D("WS", "$WS")},
		{L("EQ", "="), L("EQEQ", "=="), P("EQS", "=+x"), P("INT", "[0-9]+"), P("FLT", `[0-9]+\.[0-9]+`)},
		{L("SQ", "'"), L("BS", `\\`), L("DQ", `\"`), P("ANYQ", `['"]x`)},
		{P("TAB", `\x09+`), P("EAC", `\x00E9+`), P("PRN", `[\x21-\x2F]+y`), P("EMO", `\x01F600`), L("LET", "let")},
		{L("KFUNC", "func"), L("KTYPE", "type"), L("KGO", "go"), D("ID", "$ID"), D("WS", "$WS"), D("COMMENT", "$COMMENT")},
		{L("LET", "let"), L("LE", "le"), L("LL", "l"), P("LID", "l[a-z]*")}, // literals fully shadowing nothing; prefixes
		{L("AB", "ab"), P("SHADOW", "a(b)"), P("ABS", "ab+")},                // SHADOW owns no state
		{D("NUMBER", "$NUMBER"), D("STRING", "$STRING"), D("EOL", "$WS"), L("MINUS", "-")},
		{P("AA", "a"), P("BC", "b|c"), P("CD", "(cd)+"), P("OPT", "e?f")},
		{L("SEMI", ";"), L("LB", "{"), L("RB", "}"), L("LLB", "{{"), P("WORD", `\w+`), P("SP", `[ \x09]+`)},
		{D("ID", "$ID"), D("NUMBER", "$NUMBER"), L("PLUS", "+"), L("STAR", "*"), L("LP", "("), L("RP", ")"), D("WS", "$WS")},
		{P("UP", "[A-Z][a-z]*"), P("DIGITS", `\d{2,3}`), L("AT", "@"), L("HASH", "#")},
	}
}
