// Package rt is the runtime that owns nondeterministic choices of instrumented code: the order of every range over
// a Go map, every shuffle of the dependency, and (for C17) every scheduling point. Instrumented code calls MapOrder,
// Shuffle and Point; an Explorer enumerates executions with a bounded number of deviations from the default answers.
// rt imports nothing from the code under test.
package rt

import (
	"fmt"
	"iter"
	"reflect"
	"runtime"
	"sort"
	"strings"
)

// Point is one choice point of an execution.
type ChoicePoint struct {
	Site   string
	Arity  int // number of alternatives (menu size); the default is alternative 0
	Choice int
	Free   bool // a non-default answer here does not count as a deviation (e.g. the running thread has finished)
}

// Exec is the state of the execution in progress.
type Exec struct {
	prefix  []int
	Points  []ChoicePoint
	perSite map[string]int
	// Filter decides whether a point is open for deviation (others always take the default and are not recorded
	// as branch points); nil = all.
	Filter   func(site string, occurrence int) bool
	Diverged string
}

var cur *Exec

// Begin starts an execution that replays prefix and answers 0 afterwards.
func Begin(prefix []int, filter func(site string, occurrence int) bool) *Exec {
	cur = &Exec{prefix: prefix, perSite: map[string]int{}, Filter: filter}
	return cur
}

// End finishes the execution.
func End() { cur = nil }

// Active reports whether an execution is being explored.
func Active() bool { return cur != nil }

// CallerPrefix is the import-path prefix of the code under test whose call sites are attached to choice points that
// occur inside the dependency ("" = off). A point "set/set.go" reached from emerge's golang.go:180 becomes
// "set/set.go@internal/generate/golang/golang.go:180", so that explorations can treat it like a point of /repo.
var CallerPrefix = "github.com/gardenbed/emerge/internal/"

func callerSite() string {
	if CallerPrefix == "" {
		return ""
	}
	var pcs [24]uintptr
	n := runtime.Callers(3, pcs[:])
	frames := runtime.CallersFrames(pcs[:n])
	for {
		f, more := frames.Next()
		// only DIRECT use counts: between the choice point and the line of the code under test there may be
		// frames of the dependency's container packages (and of this package), nothing else
		direct := false
		for _, p := range []string{"github.com/moorara/algo/set.", "github.com/moorara/algo/symboltable.", "github.com/moorara/algo/sort.",
			"github.com/moorara/algo/generic.", "github.com/moorara/algo/list.", "github.com/moorara/algo/grammar.", "github.com/gardenbed/emerge/verif/rt.", "iter."} {
			if strings.HasPrefix(f.Function, p) {
				direct = true
			}
		}
		if !direct && !strings.HasPrefix(f.Function, CallerPrefix) {
			return ""
		}
		if strings.HasPrefix(f.Function, CallerPrefix) {
			file := f.File
			if i := strings.Index(file, "/internal/"); i >= 0 {
				file = file[i+1:]
			}
			return fmt.Sprintf("@%s:%d", file, f.Line)
		}
		if !more {
			return ""
		}
	}
}

// choose returns the alternative to take at a point with the given menu size.
func choose(site string, arity int) int {
	e := cur
	if e == nil || arity <= 1 {
		return 0
	}
	if !strings.HasPrefix(site, "internal/") && site != "sched" {
		site += callerSite()
	}
	occ := e.perSite[site]
	e.perSite[site] = occ + 1
	if e.Filter != nil && !e.Filter(site, occ) {
		return 0
	}
	i := len(e.Points)
	c := 0
	if i < len(e.prefix) {
		c = e.prefix[i]
		if c >= arity {
			// the replayed prefix no longer fits: a hard error for the caller
			e.Diverged = fmt.Sprintf("point %d (%s): recorded choice %d, arity now %d", i, site, c, arity)
			c = 0
		}
	}
	e.Points = append(e.Points, ChoicePoint{Site: site, Arity: arity, Choice: c, Free: freeNext})
	freeNext = false
	return c
}

// freeNext marks the next recorded point as free of deviation cost.
var freeNext bool

// menu(n) is the number of permutations offered for n elements: all n! for n <= 5; otherwise a fixed, deterministic
// list: identity, reverse, "move element i to the front" (n-1), "move element i to the back" (n-1), adjacent
// transpositions (n-1), rotations (n-2), and 48 further permutations generated once from a fixed seed.
func menu(n int) int {
	switch {
	case n <= 1:
		return 1
	case n <= 5:
		f := 1
		for i := 2; i <= n; i++ {
			f *= i
		}
		return f
	}
	return 2 + 3*(n-1) + (n - 2) + 48
}

// perm returns permutation number c of n elements (0 = identity).
func perm(n, c int) []int {
	p := make([]int, n)
	for i := range p {
		p[i] = i
	}
	if c == 0 {
		return p
	}
	if n <= 5 {
		// c-th permutation in lexicographic order (factorial number system)
		avail := append([]int{}, p...)
		f := 1
		for i := 2; i < n; i++ {
			f *= i
		}
		out := make([]int, 0, n)
		for i := n - 1; i >= 0; i-- {
			k := c / f
			c %= f
			out = append(out, avail[k])
			avail = append(avail[:k], avail[k+1:]...)
			if i > 0 {
				f /= i
			}
		}
		return out
	}
	c-- // 0-based among the non-identity permutations
	switch {
	case c == 0: // reverse
		for i, j := 0, n-1; i < j; i, j = i+1, j-1 {
			p[i], p[j] = p[j], p[i]
		}
	case c < 1+(n-1): // move element k (1..n-1) to the front
		k := c
		v := p[k]
		copy(p[1:k+1], p[0:k])
		p[0] = v
	case c < 1+2*(n-1): // move element k (0..n-2) to the back
		k := c - (1 + (n - 1))
		v := p[k]
		copy(p[k:], p[k+1:])
		p[n-1] = v
	case c < 1+3*(n-1): // swap neighbours k, k+1
		k := c - (1 + 2*(n-1))
		p[k], p[k+1] = p[k+1], p[k]
	case c < 1+3*(n-1)+(n-2): // rotate left by k+2 (rotation by 1 is "move 0 to the back")
		k := c - (1 + 3*(n-1)) + 2
		for i := range p {
			p[i] = (i + k) % n
		}
	default: // fixed pseudo-random permutations (linear congruential generator seeded by n and the index)
		seed := uint64(n)*2654435761 + uint64(c)*40503 + 12345
		for i := n - 1; i > 0; i-- {
			seed = seed*6364136223846793005 + 1442695040888963407
			j := int((seed >> 33) % uint64(i+1))
			p[i], p[j] = p[j], p[i]
		}
	}
	return p
}

// Shuffle replaces a pseudo-random shuffle of n elements: the explorer decides the permutation
// (identity by default). swap exchanges elements i and j of the caller's sequence.
func Shuffle(site string, n int, swap func(i, j int)) {
	if cur == nil || n <= 1 {
		return
	}
	c := choose(site, menu(n))
	if c == 0 {
		return
	}
	applyPerm(perm(n, c), swap)
}

// applyPerm rearranges a sequence so that position i holds the element that was at p[i], using swaps only.
func applyPerm(p []int, swap func(i, j int)) {
	n := len(p)
	pos := make([]int, n) // pos[e] = current position of original element e
	at := make([]int, n)  // at[i] = original element currently at position i
	for i := 0; i < n; i++ {
		pos[i], at[i] = i, i
	}
	for i := 0; i < n; i++ {
		want := p[i]
		j := pos[want]
		if j != i {
			swap(i, j)
			ei, ej := at[i], at[j]
			at[i], at[j] = ej, ei
			pos[ei], pos[ej] = j, i
		}
	}
}

// MapOrder yields the entries of m in an order decided by the explorer. Every order it can produce is an order the
// Go runtime may produce. The base order is the sorted order of the keys when they are orderable values
// (strings, integers, and anything whose %v rendering is address-free); otherwise the runtime's own order.
func MapOrder[K comparable, V any](m map[K]V, site string) iter.Seq2[K, V] {
	return func(yield func(K, V) bool) {
		if cur == nil || len(m) <= 1 {
			for k, v := range m {
				if !yield(k, v) {
					return
				}
			}
			return
		}
		keys := make([]K, 0, len(m))
		for k := range m {
			keys = append(keys, k)
		}
		if orderable(keys) {
			sort.SliceStable(keys, func(i, j int) bool { return fmt.Sprint(keys[i]) < fmt.Sprint(keys[j]) })
		}
		c := choose(site, menu(len(keys)))
		for _, i := range perm(len(keys), c) {
			k := keys[i]
			v, ok := m[k]
			if !ok {
				continue // deleted during the iteration, as the language allows
			}
			if !yield(k, v) {
				return
			}
		}
	}
}

func orderable[K comparable](keys []K) bool {
	if len(keys) == 0 {
		return true
	}
	switch reflect.TypeOf(keys[0]).Kind() {
	case reflect.String, reflect.Int, reflect.Int8, reflect.Int16, reflect.Int32, reflect.Int64,
		reflect.Uint, reflect.Uint8, reflect.Uint16, reflect.Uint32, reflect.Uint64, reflect.Bool, reflect.Float64:
		return true
	}
	return false
}

// Explorer enumerates executions with at most Bound deviations (non-default answers).
type Explorer struct {
	Bound      int
	Filter     func(site string, occurrence int) bool
	Run        func() string                                         // one execution of the code under test; returns its observation
	Visit      func(choices []int, points []ChoicePoint, obs string) // called after every execution
	Budget     func() bool                                           // false: stop (caller records exhaustive=false)
	Executions int
	MaxPoints  int
	Sites      map[string]int
	Capped     bool
	Diverged   []string
	// Shard/NShards partition the first-level deviations among worker processes.
	Shard, NShards int
	// ShardOffset rotates the assignment of first-level points to shards (so that different scenarios load different workers).
	ShardOffset int
	// SecondLevel restricts deviations beyond the first to points whose site it accepts (nil: all).
	SecondLevel func(site string) bool
	// SecondArity caps the number of alternatives tried at deviations beyond the first (0: no cap). The menu is
	// ordered so that its head holds the structurally different orders (for n <= 5 the lexicographic list of all
	// orders; otherwise reverse, then every move-to-front).
	SecondArity int
}

// Explore runs the depth-first enumeration.
func (x *Explorer) Explore() {
	x.Sites = map[string]int{}
	x.explore(nil, 0)
}

func (x *Explorer) explore(prefix []int, deviations int) {
	if x.Budget != nil && !x.Budget() {
		x.Capped = true
		return
	}
	if len(prefix) == 0 && x.NShards > 1 && x.Shard != 0 {
		// only shard 0 counts the default execution; the others still need its points
	}
	e := Begin(prefix, x.Filter)
	obs := x.Run()
	End()
	x.Executions++
	if e.Diverged != "" {
		x.Diverged = append(x.Diverged, e.Diverged)
		return
	}
	if len(e.Points) > x.MaxPoints {
		x.MaxPoints = len(e.Points)
	}
	choices := make([]int, len(e.Points))
	for i, p := range e.Points {
		choices[i] = p.Choice
		if len(prefix) == 0 {
			x.Sites[p.Site]++
		}
	}
	if x.Visit != nil {
		x.Visit(choices, e.Points, obs)
	}
	for i := len(prefix); i < len(e.Points); i++ {
		if deviations == 0 && x.NShards > 1 && (i+x.ShardOffset)%x.NShards != x.Shard {
			continue
		}
		if deviations > 0 && x.SecondLevel != nil && !x.SecondLevel(e.Points[i].Site) {
			continue
		}
		cost := 1
		if e.Points[i].Free {
			cost = 0
		}
		if deviations+cost > x.Bound {
			continue
		}
		arity := e.Points[i].Arity
		if deviations > 0 && x.SecondArity > 0 && arity > x.SecondArity {
			arity = x.SecondArity
		}
		for alt := 1; alt < arity; alt++ {
			next := append(append([]int{}, choices[:i]...), alt)
			x.explore(next, deviations+cost)
			if x.Capped {
				return
			}
		}
	}
}
