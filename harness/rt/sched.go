package rt

import (
	"fmt"
	"reflect"
)

// A cooperative scheduler: the bodies run as goroutines, but exactly one runs at any time; control returns to the
// scheduler at every Point (inserted before each statement of /repo that touches a package-level variable) and at
// every synchronisation operation of the code under test (goroutine start, channel send / receive, lock, unlock,
// wait - routed here by the instrumenter, see conc.go and rt/vsync).
// At every point the explorer chooses the next thread; the canonical order of the enabled threads is "the running
// thread first if it can continue, then ascending ids", so answer 0 means "no context switch" and any other answer
// while the running thread can continue is a preemption (one deviation).
//
// Threads started by the code under test (Go) join the same scheduler. A thread that cannot proceed (a receive on an
// empty channel, a lock that is held, a wait) is not enabled until some other thread has made progress; if no thread
// is enabled and some are not finished, the execution is a deadlock.

type thread struct {
	id      int
	resume  chan struct{}
	done    bool
	panic   any
	waiting bool // blocked in an operation that could not proceed
	epoch   int  // value of sched.epoch when it started waiting
}

type sched struct {
	threads  []*thread
	yield    chan *thread // a thread reports that it reached a point (or finished)
	cur      *thread
	steps    int
	epoch    int // counts operations that may unblock a waiting thread
	deadlock bool
	offers   map[uintptr][]*offer // pending sends on channels without room (keyed by channel identity)
}

type offer struct {
	val   reflect.Value
	taken bool
}

var curSched *sched

// Horizon is the maximal number of scheduling steps per execution; beyond it the execution is abandoned.
const Horizon = 200000

// Controlled reports whether the caller runs as a thread of the cooperative scheduler.
func Controlled() bool {
	s := curSched
	return s != nil && s.cur != nil
}

// Point is a scheduling point. global names the package-level variable about to be accessed.
func Point(global, site string) {
	s := curSched
	if s == nil || s.cur == nil {
		return
	}
	t := s.cur
	s.yield <- t
	<-t.resume
}

// SyncPoint is a scheduling point in front of a synchronisation operation.
func SyncPoint() { Point("", "sync") }

// Progress records that the running thread completed an operation that may unblock others.
func Progress() {
	if s := curSched; s != nil {
		s.epoch++
	}
}

// Block suspends the running thread until some other thread has made progress; the caller retries its operation.
func Block() {
	s := curSched
	if s == nil || s.cur == nil {
		return
	}
	t := s.cur
	t.waiting, t.epoch = true, s.epoch
	s.yield <- t
	<-t.resume
	t.waiting = false
}

func (s *sched) start(body func()) *thread {
	t := &thread{id: len(s.threads), resume: make(chan struct{})}
	s.threads = append(s.threads, t)
	go func() {
		<-t.resume
		defer func() {
			if p := recover(); p != nil {
				t.panic = p
			}
			t.done = true
			s.epoch++
			s.yield <- t
		}()
		body()
	}()
	return t
}

// Go starts f as a further thread of the running execution (a plain goroutine outside a controlled execution).
func Go(f func()) {
	s := curSched
	if s == nil || s.cur == nil {
		go f()
		return
	}
	s.start(f)
	s.epoch++
	SyncPoint() // the new thread may run first
}

// Deadlocked reports whether the last RunThreads ended with unfinished threads none of which could proceed.
var Deadlocked bool

// RunThreads runs the bodies under the scheduler and returns the panics (nil entries for normal termination; threads
// started by the bodies come after them) and whether the horizon was hit.
func RunThreads(bodies []func()) (panics []any, capped bool) {
	s := &sched{yield: make(chan *thread), offers: map[uintptr][]*offer{}}
	curSched = s
	Deadlocked = false
	defer func() { curSched = nil }()
	for _, body := range bodies {
		s.start(body)
	}
	var running *thread
	for {
		var enabled []*thread
		can := func(t *thread) bool { return !t.done && (!t.waiting || s.epoch > t.epoch) }
		if running != nil && can(running) {
			enabled = append(enabled, running)
		}
		unfinished := 0
		for _, t := range s.threads {
			if !t.done {
				unfinished++
			}
			if t != running && can(t) {
				enabled = append(enabled, t)
			}
		}
		if len(enabled) == 0 {
			if unfinished > 0 {
				s.deadlock, Deadlocked = true, true
			}
			break
		}
		if s.steps++; s.steps > Horizon {
			capped = true
			break
		}
		if running == nil || !can(running) {
			freeNext = true
		}
		c := choose("sched", len(enabled))
		freeNext = false
		next := enabled[c]
		running = next
		s.cur = next
		next.resume <- struct{}{}
		<-s.yield
		s.cur = nil
	}
	for _, t := range s.threads {
		panics = append(panics, t.panic)
	}
	return panics, capped
}

// Describe renders a schedule (sequence of choices) readably.
func Describe(points []ChoicePoint) string {
	out := ""
	for _, p := range points {
		if p.Site == "sched" {
			out += fmt.Sprint(p.Choice)
		}
	}
	return out
}
