package rt

import "fmt"

// A cooperative scheduler: the bodies run as goroutines, but exactly one runs at any time; control returns to the
// scheduler at every Point (inserted before each statement of /repo that touches a package-level variable).
// At every Point the explorer chooses the next thread; the canonical order of the enabled threads is "the running
// thread first if it can continue, then ascending ids", so answer 0 means "no context switch" and any other answer
// while the running thread can continue is a preemption (one deviation).

type thread struct {
	id     int
	resume chan struct{}
	done   bool
	panic  any
}

type sched struct {
	threads []*thread
	yield   chan *thread // a thread reports that it reached a Point (or finished)
	cur     *thread
	steps   int
}

var curSched *sched

// Horizon is the maximal number of scheduling steps per execution; beyond it the execution is abandoned.
const Horizon = 200000

// Point is a scheduling point. global names the package-level variable about to be accessed.
func Point(global, site string) {
	s := curSched
	if s == nil || s.cur == nil {
		return
	}
	t := s.cur
	s.yield <- t
	<-t.resume
}

// RunThreads runs the bodies under the scheduler and returns the panics (nil entries for normal termination)
// and whether the horizon was hit.
func RunThreads(bodies []func()) (panics []any, capped bool) {
	s := &sched{yield: make(chan *thread)}
	curSched = s
	defer func() { curSched = nil }()
	for i, body := range bodies {
		t := &thread{id: i, resume: make(chan struct{})}
		s.threads = append(s.threads, t)
		go func(t *thread, body func()) {
			<-t.resume
			defer func() {
				if p := recover(); p != nil {
					t.panic = p
				}
				t.done = true
				s.yield <- t
			}()
			body()
		}(t, body)
	}
	var running *thread
	for {
		var enabled []*thread
		if running != nil && !running.done {
			enabled = append(enabled, running)
		}
		for _, t := range s.threads {
			if !t.done && t != running {
				enabled = append(enabled, t)
			}
		}
		if len(enabled) == 0 {
			break
		}
		if s.steps++; s.steps > Horizon {
			capped = true
			break
		}
		if running == nil || running.done {
			freeNext = true
		}
		c := choose("sched", len(enabled))
		freeNext = false
		next := enabled[c]
		running = next
		s.cur = next
		next.resume <- struct{}{}
		<-s.yield
		s.cur = nil
	}
	for _, t := range s.threads {
		panics = append(panics, t.panic)
	}
	if capped {
		return panics, true
	}
	return panics, false
}

// Describe renders a schedule (sequence of choices) readably.
func Describe(points []ChoicePoint) string {
	out := ""
	for _, p := range points {
		if p.Site == "sched" {
			out += fmt.Sprint(p.Choice)
		}
	}
	return out
}
