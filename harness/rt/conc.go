package rt

import "reflect"

// Channel operations of the code under test, routed here by the instrumenter (`ch <- v` becomes rt.Send(ch, v), `<-ch`
// becomes rt.Recv(ch), `v, ok := <-ch` becomes rt.Recv2(ch)). Outside a controlled execution they are the plain
// operations. Inside, each is preceded by a scheduling point, is tried without blocking, and - if it cannot proceed -
// suspends the thread until another thread has made progress. Because no thread is ever really blocked inside a
// channel operation, a send that finds no room (an unbuffered or full channel) is parked as an offer which a receiver
// of the same channel takes directly.

func chanID(ch any) uintptr { return reflect.ValueOf(ch).Pointer() }

// Send is `ch <- v`.
func Send[T any](ch chan<- T, v T) {
	s := curSched
	if s == nil || s.cur == nil {
		ch <- v
		return
	}
	SyncPoint()
	select {
	case ch <- v:
		s.epoch++
		return
	default:
	}
	id := chanID(ch)
	o := &offer{val: reflect.ValueOf(&v).Elem()}
	s.offers[id] = append(s.offers[id], o)
	s.epoch++ // a receiver may now proceed
	for !o.taken {
		Block()
		if o.taken {
			break
		}
		// room may have become free: the oldest parked sender moves in
		if q := s.offers[id]; len(q) > 0 && q[0] == o {
			select {
			case ch <- v:
				s.offers[id] = q[1:]
				o.taken = true
				s.epoch++
			default:
			}
		}
	}
}

func takeOffer[T any](s *sched, ch <-chan T) (T, bool) {
	id := chanID(ch)
	q := s.offers[id]
	if len(q) == 0 {
		var zero T
		return zero, false
	}
	o := q[0]
	s.offers[id] = q[1:]
	o.taken = true
	s.epoch++
	var out T
	reflect.ValueOf(&out).Elem().Set(o.val)
	return out, true
}

// Recv2 is `v, ok := <-ch`.
func Recv2[T any](ch <-chan T) (T, bool) {
	s := curSched
	if s == nil || s.cur == nil {
		v, ok := <-ch
		return v, ok
	}
	SyncPoint()
	for {
		select {
		case v, ok := <-ch:
			s.epoch++
			return v, ok
		default:
		}
		if v, ok := takeOffer(s, ch); ok {
			return v, true
		}
		Block()
	}
}

// Recv is `<-ch`.
func Recv[T any](ch <-chan T) T {
	v, _ := Recv2(ch)
	return v
}
