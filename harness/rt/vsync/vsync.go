// Package vsync stands in for package sync in instrumented copies of the code under test (the instrumenter rewrites the
// import). Outside a controlled execution every type behaves like its original. Inside one (rt.RunThreads) the blocking
// operations are scheduling points of the cooperative scheduler: a thread that cannot proceed is suspended until another
// thread has made progress, so that the explorer owns the order in which goroutines of the code under test run.
package vsync

import (
	"sync"

	"github.com/gardenbed/emerge/verif/rt"
)

// Types without blocking behaviour of their own are the originals.
type (
	Pool   = sync.Pool
	Map    = sync.Map
	Locker = sync.Locker
)

// Mutex is sync.Mutex.
type Mutex struct {
	real sync.Mutex
	held bool
}

func (m *Mutex) Lock() {
	if !rt.Controlled() {
		m.real.Lock()
		return
	}
	rt.SyncPoint()
	for m.held {
		rt.Block()
	}
	m.held = true
}

func (m *Mutex) TryLock() bool {
	if !rt.Controlled() {
		return m.real.TryLock()
	}
	rt.SyncPoint()
	if m.held {
		return false
	}
	m.held = true
	return true
}

func (m *Mutex) Unlock() {
	if !rt.Controlled() {
		m.real.Unlock()
		return
	}
	rt.SyncPoint()
	if !m.held {
		panic("sync: unlock of unlocked mutex")
	}
	m.held = false
	rt.Progress()
}

// RWMutex is sync.RWMutex.
type RWMutex struct {
	real    sync.RWMutex
	writer  bool
	readers int
}

func (m *RWMutex) Lock() {
	if !rt.Controlled() {
		m.real.Lock()
		return
	}
	rt.SyncPoint()
	for m.writer || m.readers > 0 {
		rt.Block()
	}
	m.writer = true
}

func (m *RWMutex) Unlock() {
	if !rt.Controlled() {
		m.real.Unlock()
		return
	}
	rt.SyncPoint()
	if !m.writer {
		panic("sync: Unlock of unlocked RWMutex")
	}
	m.writer = false
	rt.Progress()
}

func (m *RWMutex) RLock() {
	if !rt.Controlled() {
		m.real.RLock()
		return
	}
	rt.SyncPoint()
	for m.writer {
		rt.Block()
	}
	m.readers++
}

func (m *RWMutex) RUnlock() {
	if !rt.Controlled() {
		m.real.RUnlock()
		return
	}
	rt.SyncPoint()
	if m.readers == 0 {
		panic("sync: RUnlock of unlocked RWMutex")
	}
	m.readers--
	rt.Progress()
}

func (m *RWMutex) RLocker() sync.Locker { return rlocker{m} }

type rlocker struct{ m *RWMutex }

func (r rlocker) Lock()   { r.m.RLock() }
func (r rlocker) Unlock() { r.m.RUnlock() }

// WaitGroup is sync.WaitGroup.
type WaitGroup struct {
	real sync.WaitGroup
	n    int
}

func (w *WaitGroup) Add(delta int) {
	if !rt.Controlled() {
		w.real.Add(delta)
		return
	}
	w.n += delta
	if w.n < 0 {
		panic("sync: negative WaitGroup counter")
	}
	if w.n == 0 {
		rt.Progress()
	}
}

func (w *WaitGroup) Done() {
	if rt.Controlled() {
		rt.SyncPoint()
	}
	w.Add(-1)
}

func (w *WaitGroup) Wait() {
	if !rt.Controlled() {
		w.real.Wait()
		return
	}
	rt.SyncPoint()
	for w.n > 0 {
		rt.Block()
	}
}

// Go is sync.WaitGroup.Go (Go 1.25): f runs in a new goroutine counted by the group.
func (w *WaitGroup) Go(f func()) {
	w.Add(1)
	rt.Go(func() {
		defer w.Done()
		f()
	})
}

// Once is sync.Once.
type Once struct {
	real    sync.Once
	done    bool
	running bool
}

func (o *Once) Do(f func()) {
	if !rt.Controlled() {
		o.real.Do(f)
		return
	}
	rt.SyncPoint()
	for o.running {
		rt.Block()
	}
	if o.done {
		return
	}
	o.running = true
	defer func() {
		o.running, o.done = false, true
		rt.Progress()
	}()
	f()
}

// OnceFunc, OnceValue and OnceValues are the originals (their blocking is not owned).
func OnceFunc(f func()) func()                                 { return sync.OnceFunc(f) }
func OnceValue[T any](f func() T) func() T                     { return sync.OnceValue(f) }
func OnceValues[T1, T2 any](f func() (T1, T2)) func() (T1, T2) { return sync.OnceValues(f) }

// Cond is the original (not owned: a Wait under the cooperative scheduler would not return).
type Cond = sync.Cond

func NewCond(l sync.Locker) *sync.Cond { return sync.NewCond(l) }
