#!/bin/bash
# Builds the C17 binaries: c17 from instrumented sources of /repo (scheduling points before every access to a
# package-level variable, via -overlay), and c17race with -race from the pristine sources.
set -eu
here="$(cd "$(dirname "$0")/../.." && pwd)"
out="$1"
work=/tmp/verif-c17-instr
rm -rf "$work"
mkdir -p "$work"
(cd "$here/../instr" && go build -o "$here/../.bin/instr" .)
"$here/../.bin/instr" -out "$work" -globals >&2
cd "$here"
go build -tags verif -overlay "$work/overlay.json" -o "$out" ./cmd/c17
go build -race -tags verif -o "$(dirname "$out")/c17race" ./cmd/c17race
