// C17: processing is a pure function of the text: no cross-run / cross-goroutine interference.
// Part 1 (deciding): controlled scheduler over instrumented sources - every statement of /repo that touches a
// package-level variable is a scheduling point; all interleavings of 2-3 operations with a bounded number of
// preemptions are enumerated and every result is compared with the result of the same operation run alone in a
// fresh process. Part 2: free-running -race pass (a cooperative scheduler hides data races from any detector).
// Part 3: all sequential histories up to a length bound.
package main

import (
	"crypto/sha256"
	"fmt"
	"os"
	"os/exec"
	"path/filepath"
	"regexp"
	"strings"
	"time"

	"github.com/gardenbed/emerge/verif/ev"
	"github.com/gardenbed/emerge/verif/rt"
)

func digest(s string) string { return fmt.Sprintf("%x", sha256.Sum256([]byte(s)))[:16] }

func safeRun(i int) (out string) {
	defer func() {
		if p := recover(); p != nil {
			out = fmt.Sprintf("PANIC %v", p)
		}
	}()
	return Ops[i].Run()
}

type replayInput struct {
	Threads []int
	Choices []int
	History []int
}

func baselines() []string {
	out := make([]string, len(Ops))
	for i := range Ops {
		cmd := exec.Command(os.Args[0], "-baseline", fmt.Sprint(i))
		cmd.Env = append(os.Environ(), "VERIF_WORKER=")
		b, err := cmd.Output()
		if err != nil {
			ev.Fatal("baseline %s: %v", Ops[i].Name, err)
		}
		out[i] = string(b)
	}
	return out
}

// scenarios name the operations that run concurrently
var scenarioNames = [][]string{{"parse-one", "parse-two"}, {"parse-one", "parse-one"}, {"parse-one", "parse-one-dfa"}, {"parse-two", "pattern"},
	{"parse-bad", "parse-one"}, {"parse-three-lalr", "parse-two"}, {"pattern-class", "pattern-negated-class"}, {"parse-one", "parse-two", "pattern"}, {"parse-one", "parse-one", "parse-bad"},
	{"ast-negated-unicode", "ast-any-nondigit"}, {"ast-negated-unicode", "ast-negated-unicode"}, {"ast-classes", "ast-any-nondigit"},
	{"nfa-any-nonword", "pattern-negated-class"}, {"parse-four-dfa", "ast-negated-unicode"}, {"parse-five-dfa", "parse-six-dfa"}, {"generate-two", "generate-six-debug"}, {"generate-two", "generate-two"}, {"generate-rep-literal", "generate-rep-pattern"},
	{"fail-pattern-unclosed-groups", "pattern"}, {"fail-spec-syntax", "parse-one"}, {"fail-ast-unclosed-groups", "ast-classes"}, {"generate-fail-definitions", "generate-two"}}

var scenarios = func() [][]int {
	var out [][]int
	for _, names := range scenarioNames {
		var sc []int
		for _, n := range names {
			for i, op := range Ops {
				if op.Name == n {
					sc = append(sc, i)
				}
			}
		}
		out = append(out, sc)
	}
	return out
}()

// maxOcc bounds the dynamic occurrences of one static scheduling point (per thread-independent count within one
// execution) at which a preemption is tried.
var maxOcc = 1 << 30

func runScenario(r *ev.Run, base []string, threads []int, bound int, prefix []int, replay bool) {
	var results []string
	shard, nshards := r.ShardInfo()
	outcomes := map[string]bool{}
	x := &rt.Explorer{
		Bound:   bound,
		Shard:   shard,
		NShards: nshards,
		ShardOffset: func() int {
			o := 0
			for _, t := range threads {
				o = o*5 + t
			}
			return o
		}(),
		// a statement inside a loop passes its scheduling point many times: preempt at the first occurrences only
		Filter: func(site string, occ int) bool { return occ < maxOcc },
		Budget: func() bool { return !r.Expired() },
		Run: func() string {
			results = make([]string, len(threads))
			bodies := make([]func(), len(threads))
			for k, op := range threads {
				k, op := k, op
				bodies[k] = func() { results[k] = safeRun(op) }
			}
			Recheck() // forget what earlier executions remembered
			panics, capped := rt.RunThreads(bodies)
			obs := ""
			if d := Recheck(); d != "" {
				obs += "a result that had been returned changed afterwards:\n" + clip(d) + "\n"
			}
			for k, op := range threads {
				switch {
				case panics[k] != nil:
					obs += fmt.Sprintf("thread %d (%s) panics: %v\n", k, Ops[op].Name, panics[k])
				case capped:
					obs += "horizon reached\n"
				case results[k] != base[op]:
					obs += fmt.Sprintf("thread %d (%s) returns a result that differs from its isolated run:\n--- isolated ---\n%s\n--- interleaved ---\n%s\n", k, Ops[op].Name, clip(base[op]), clip(results[k]))
				}
			}
			return obs
		},
	}
	x.Visit = func(choices []int, points []rt.ChoicePoint, obs string) {
		r.Add("executions", 1)
		r.Add("transitions", len(points))
		key := digest(obs)
		if !outcomes[key] {
			outcomes[key] = true
			// distinct outcomes: "all results equal the isolated runs" is counted once per scenario (by shard 0)
			if obs != "" || shard == 0 {
				r.Add("states", 1)
			}
		}
		if obs != "" && len(outcomes) <= 6 {
			names := []string{}
			for _, op := range threads {
				names = append(names, Ops[op].Name)
			}
			r.Report("", fmt.Sprintf("threads %v under schedule %s: %s", names, rt.Describe(points), obs), replayInput{Threads: threads, Choices: trim(choices)})
		}
	}
	if replay {
		for k := 0; k < 2; k++ {
			e := rt.Begin(prefix, nil)
			obs := x.Run()
			rt.End()
			if e.Diverged != "" {
				ev.Fatal("replay diverged: %s", e.Diverged)
			}
			fmt.Printf("replay run %d: %s\n", k+1, map[bool]string{true: "all results equal the isolated runs", false: obs}[obs == ""])
			if obs != "" && k == 1 {
				r.Report("", obs, replayInput{Threads: threads, Choices: prefix})
			}
		}
		return
	}
	x.Explore()
	if x.Capped {
		r.Set("exhaustive", false)
	}
	for _, d := range x.Diverged {
		r.InternalError("exploration diverged while replaying a prefix: %s", d)
	}
	if shard == 0 {
		r.Add("scheduling_points_in_default_execution", x.MaxPoints)
		r.Sample(map[string]any{"threads": threads, "scheduling_points": x.MaxPoints, "distinct_outcomes": len(outcomes)})
	}
}

func trim(c []int) []int {
	n := len(c)
	for n > 0 && c[n-1] == 0 {
		n--
	}
	return append([]int{}, c[:n]...)
}

func clip(s string) string {
	if len(s) > 500 {
		return s[:500] + "…"
	}
	return s
}

var raceBlock = regexp.MustCompile(`(?s)WARNING: DATA RACE.*?==================`)

// racePass runs the -race binary and classifies every report by the first non-standard-library frame of its stacks.
func racePass(r *ev.Run, rounds int) {
	bin := filepath.Join(filepath.Dir(os.Args[0]), "c17race")
	if _, err := os.Stat(bin); err != nil {
		r.Set("race_pass", "binary not built")
		r.Set("exhaustive", false)
		return
	}
	cmd := exec.Command(bin, fmt.Sprint(rounds))
	cmd.Env = append(os.Environ(), "GORACE=halt_on_error=0")
	var se strings.Builder
	cmd.Stderr = &se
	err := cmd.Run()
	out := se.String()
	blocks := raceBlock.FindAllString(out, -1)
	r.Set("race_reports", len(blocks))
	seen := map[string]bool{}
	for _, blk := range blocks {
		var ownFrames, depFrames []string
		for _, line := range strings.Split(blk, "\n") {
			l := strings.TrimSpace(line)
			switch {
			case strings.HasPrefix(l, "github.com/gardenbed/emerge/internal/"):
				ownFrames = append(ownFrames, l)
			case strings.HasPrefix(l, "github.com/moorara/algo/"):
				depFrames = append(depFrames, l)
			}
		}
		// the innermost non-stdlib frame of each access decides: if an access happens directly in emerge's code
		// (no dependency frame above it) it is emerge's own shared state
		first := ""
		for _, line := range strings.Split(blk, "\n") {
			l := strings.TrimSpace(line)
			if strings.HasPrefix(l, "github.com/gardenbed/emerge/internal/") || strings.HasPrefix(l, "github.com/moorara/algo/") {
				first = l
				break
			}
		}
		key := first
		if seen[key] {
			continue
		}
		seen[key] = true
		if strings.HasPrefix(first, "github.com/gardenbed/emerge/internal/") {
			r.Report("", "data race on emerge's own shared state:\n"+clip(blk), replayInput{})
		} else {
			r.Report("dep-shared-hashers", "data race inside the dependency, first frame "+first, replayInput{})
		}
		_ = ownFrames
		_ = depFrames
	}
	if err != nil || strings.Contains(out, "PANIC") || strings.Contains(out, "fatal error") || strings.Contains(out, "panic:") {
		// a crash under concurrency: attribute it by its frames
		if strings.Contains(out, "github.com/moorara/algo/") && !strings.Contains(firstPanicFrame(out), "gardenbed/emerge/internal") {
			r.Report("dep-shared-hashers", "concurrent use crashes inside the dependency: "+clip(firstPanicLine(out)), replayInput{})
		} else {
			r.Report("", "concurrent use crashes: "+clip(out), replayInput{})
		}
	}
}

func firstPanicLine(out string) string {
	for _, l := range strings.Split(out, "\n") {
		if strings.Contains(l, "PANIC") || strings.Contains(l, "panic:") || strings.Contains(l, "fatal error") {
			return l
		}
	}
	return ""
}

func firstPanicFrame(out string) string {
	i := strings.Index(out, "goroutine ")
	if i < 0 {
		return ""
	}
	for _, l := range strings.Split(out[i:], "\n") {
		if strings.HasPrefix(l, "github.com/") {
			return l
		}
	}
	return ""
}

func main() {
	if len(os.Args) == 3 && os.Args[1] == "-baseline" {
		var i int
		fmt.Sscan(os.Args[2], &i)
		fmt.Print(safeRun(i))
		return
	}
	r := ev.Start("C17", "model_checking")
	base := baselines()
	if r.Replay != "" {
		var in replayInput
		if err := r.LoadReplay(&in); err != nil {
			ev.Fatal("%v", err)
		}
		switch {
		case len(in.Threads) > 0:
			runScenario(r, base, in.Threads, 0, in.Choices, true)
		case len(in.History) > 0:
			history(r, base, in.History)
		default:
			racePass(r, 3)
		}
		r.Finish()
	}
	if os.Getenv("VERIF_WORKER") == "" {
		rounds := 3
		if !r.Quick() {
			rounds = 12
		}
		racePass(r, rounds)
	}
	if r.Fork(16) {
		r.Set("rule", "part 1: 22 scenarios of 2-3 concurrent operations (two specifications built to collide on repeated multi-symbol sub-expressions, a pattern, a specification with errors, automaton and table construction); scheduling points = every statement of /repo touching a package-level variable; all interleavings with at most the preemption bound, preempting at the first 6 (quick) / 24 (thorough) dynamic occurrences of every static point, are enumerated, each thread's result compared with the same operation run alone in a fresh process, and every returned specification rendered again after all threads have finished (a result must stay what it was); states = distinct outcomes, transitions = scheduling points passed; part 2: free-running -race pass; part 3: every sequential history up to the length bound over 19 operations that succeed or fail as a whole, every shorter history over all 34 operations (14 of them fail midway: the generic parse tree of a rejected specification, generation stopped by conflicting definitions and by an LALR(1) conflict, unclosed groups and brackets, bad ranges, lexical / syntax errors inside open brackets, unterminated strings, invalid token patterns); part 4: every operation repeated up to the repetition bound, then every operation once")
		r.Set("evaluations", r.Get("executions")+r.Get("histories"))
		r.Set("traces_validated_against_impl", r.Get("executions")+r.Get("histories"))
		if r.Get("states") == 0 {
			r.Set("states", 1)
		}
		r.Finish()
	}
	r.Set("exhaustive", true)
	t0 := time.Now()
	bound := 1
	if !r.Quick() {
		bound = 2
	}
	r.Set("bound_preemptions", bound)
	maxOcc = 6
	if !r.Quick() {
		maxOcc = 24
	}
	r.Set("bound_occurrences_per_static_point", maxOcc)
	for _, sc := range scenarios {
		if r.Quick() && len(sc) > 2 && Ops[sc[2]].Name == "parse-bad" {
			continue
		}
		st := time.Now()
		runScenario(r, base, sc, bound, nil, false)
		if os.Getenv("VERIF_C17_TRACE") != "" {
			fmt.Fprintf(os.Stderr, "trace: worker %s scenario %v: %v\n", os.Getenv("VERIF_WORKER"), sc, time.Since(st))
		}
	}
	if os.Getenv("VERIF_C17_TRACE") != "" {
		fmt.Fprintf(os.Stderr, "trace: worker %s part 1 done after %v\n", os.Getenv("VERIF_WORKER"), time.Since(t0))
	}
	// part 3: histories
	maxLen := 3
	if !r.Quick() {
		maxLen = 4
	}
	var seq []int
	n := 0
	var rec func(k int)
	rec = func(k int) {
		if len(seq) > 0 {
			n++
			if r.MineIdx(n) && !r.Expired() {
				history(r, base, append([]int{}, seq...))
			}
		}
		if k == 0 {
			return
		}
		for i := range Ops {
			// histories of the full length: over the operations that succeed or fail cleanly as a whole, and those
			// that start with two failing operations; shorter ones over all operations
			if len(seq)+1 == maxLen && maxLen >= 3 {
				anyFail := Fails(i)
				for _, o := range seq {
					anyFail = anyFail || Fails(o)
				}
				if anyFail && !(Fails(seq[0]) && Fails(seq[1])) {
					continue
				}
			}
			seq = append(seq, i)
			rec(k - 1)
			seq = seq[:len(seq)-1]
		}
	}
	rec(maxLen)
	// part 4: accumulation - one operation repeated many times (what a failing or succeeding run leaves behind may
	// add up: counters, caches, pools), then every operation once
	reps := 130
	if !r.Quick() {
		reps = 1100
	}
	r.Set("bound_repetitions", reps)
	for f := range Ops {
		if !Cheap(f) {
			continue
		}
		n++
		if r.MineIdx(n) && !r.Expired() {
			accumulate(r, base, f, reps)
		}
	}
	r.Assume("the dependency is never preempted inside (its package-level hashers are outside emerge's control; they are covered by the free-running race pass and recorded as a known finding)")
	r.Finish()
}

func accumulate(r *ev.Run, base []string, f, reps int) {
	r.Add("accumulations", 1)
	r.Distinct(fmt.Sprintf("acc %d", f))
	Recheck()
	var seq []int
	for k := 0; k < reps; k++ {
		seq = append(seq, f)
		if got := safeRun(f); got != base[f] {
			r.Report("", fmt.Sprintf("repetition %d of %s returns a result that differs from its isolated run:\n--- isolated ---\n%s\n--- now ---\n%s", k+1, Ops[f].Name, clip(base[f]), clip(got)), replayInput{History: seq})
			return
		}
		if k%16 == 15 {
			Recheck() // the renderings remembered so far are compared and forgotten (bounded memory)
		}
	}
	for g := range Ops {
		seq = append(seq, g)
		r.Add("histories", 1)
		if got := safeRun(g); got != base[g] {
			r.Report("", fmt.Sprintf("after %d repetitions of %s, %s returns a result that differs from its isolated run:\n--- isolated ---\n%s\n--- now ---\n%s", reps, Ops[f].Name, Ops[g].Name, clip(base[g]), clip(got)), replayInput{History: seq})
			return
		}
	}
	if d := Recheck(); d != "" {
		r.Report("", fmt.Sprintf("after %d repetitions of %s and every operation once: a result that had been returned changed afterwards:\n%s", reps, Ops[f].Name, clip(d)), replayInput{History: seq})
	}
}

func history(r *ev.Run, base []string, seq []int) {
	r.Add("histories", 1)
	r.Distinct(fmt.Sprint(seq))
	Recheck()
	defer func() {
		if d := Recheck(); d != "" {
			names := []string{}
			for _, o := range seq {
				names = append(names, Ops[o].Name)
			}
			r.Report("", fmt.Sprintf("history %v: a result that had been returned changed after later operations:\n%s", names, clip(d)), replayInput{History: seq})
		}
	}()
	for pos, op := range seq {
		if got := safeRun(op); got != base[op] {
			names := []string{}
			for _, o := range seq {
				names = append(names, Ops[o].Name)
			}
			r.Report("", fmt.Sprintf("history %v: operation %d (%s) returns a result that differs from its isolated run:\n--- isolated ---\n%s\n--- in this history ---\n%s", names, pos, Ops[op].Name, clip(base[op]), clip(got)), replayInput{History: seq})
			return
		}
	}
}
