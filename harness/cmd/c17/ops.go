package main

import (
	"crypto/sha256"
	"fmt"
	"os"
	"path/filepath"
	"sort"
	"strings"
	"sync"

	"github.com/gardenbed/charm/ui"
	aparser "github.com/moorara/algo/parser"

	"github.com/gardenbed/emerge/internal/ebnf/parser"
	"github.com/gardenbed/emerge/internal/ebnf/parser/spec"
	"github.com/gardenbed/emerge/internal/generate/golang"
	"github.com/gardenbed/emerge/internal/regex/parser/ast"
	"github.com/gardenbed/emerge/internal/regex/parser/nfa"
)

const (
	specOne   = "grammar one ;\n@none \"x\" \"y\" ;\nID = $ID ;\nstart = [ \"a\" \"b\" ] \"x\" [ \"a\" \"b\" ] { \"c\" \"d\" } \"y\" { \"c\" \"d\" } ID ;\n"
	specTwo   = "grammar two ;\nNUM = /[0-9]+/ ;\nstart = {{ \"p\" \"q\" }} \"z\" {{ \"p\" \"q\" }} ( \"r\" \"s\" ) [ \"r\" \"s\" ] ( \"r\" \"s\" ) NUM ;\n"
	specBad   = "grammar bad ;\nAA = \"x\" ;\nAA = \"z\" ;\nstart = AA UU [ \"a\" \"b\" ] [ \"a\" \"b\" ] ;\n"
	specThree = "grammar three ;\n@left \"+\" ;\nstart = e ;\ne = e \"+\" e | [ \"-\" \"-\" ] \"i\" [ \"-\" \"-\" ] ;\n"
	pattern   = `[a-c]+(x|\d{2})?`
)

// Ops are the operations whose results must not depend on anything else processed in the same process.
var Ops = []struct {
	Name string
	Run  func() string
}{
	{"parse-one", func() string { return parseDigest(specOne, false, false) }},
	{"parse-two", func() string { return parseDigest(specTwo, false, false) }},
	{"pattern", func() string {
		n, err := nfa.Parse(pattern)
		if err != nil {
			return "ERROR " + err.Error()
		}
		return n.ToDFA().Minimize().EliminateDeadStates().ReindexStates().String()
	}},
	{"parse-one-dfa", func() string { return parseDigest(specOne, true, false) }},
	{"pattern-class", func() string { return patternDigest(`\p{Lu}+[[:alpha:]]\d`) }},
	{"pattern-negated-class", func() string { return patternDigest(`\P{Lu}[^[:alpha:]]+\D`) }},
	{"parse-bad", func() string { return parseDigest(specBad, false, false) }},
	{"parse-three-lalr", func() string { return parseDigest(specThree, false, true) }},
	// every kind of atom that consults a package-level character table, through both pattern front ends
	{"ast-negated-unicode", func() string { return astDigest(`\P{L}\P{Lu}\P{Greek}`) }},
	{"ast-any-nondigit", func() string { return astDigest(`.\D\S\W`) }},
	{"ast-classes", func() string { return astDigest(`[^[:alpha:]]\p{Ll}\w[^a-c]`) }},
	{"nfa-any-nonword", func() string { return patternDigest(`.\W\S\P{Ll}[^x]`) }},
	{"parse-four-dfa", func() string { return parseDigest(specFour, true, false) }},
	// two specifications in which the same texts play different roles (literal in one, pattern in the other; token
	// name in one, rule name in the other; same grammar name): anything keyed by text alone confuses them
	{"parse-five-dfa", func() string { return parseDigest(specFive, true, true) }},
	{"parse-six-dfa", func() string { return parseDigest(specSix, true, true) }},
	// the whole pipeline, generation included: the emitted files of one specification must not depend on another one
	// generated before it or at the same time
	{"generate-two", func() string { return generateDigest(specTwo, false) }},
	{"generate-six-debug", func() string { return generateDigest(specSix, true) }},
	// two specifications with the same definition names, texts and order in which ONE definition is a literal in the
	// first and a pattern in the second
	{"generate-rep-literal", func() string { return generateDigest(specRepLiteral, false) }},
	{"generate-rep-pattern", func() string { return generateDigest(specRepPattern, false) }},
	// the generic parse tree, for a specification that is accepted and for two that are rejected after the first tokens
	{"build-tree-one", func() string { return treeDigest(specOne) }},
	{"fail-build-tree-syntax", func() string { return treeDigest("grammar g ;\nAA = \"x\" ;\nstart = ( [ AA \"b\" ;\n") }},
	{"fail-build-tree-lexical", func() string { return treeDigest("grammar g ;\nstart = \"a\" {{ \"b\" # }} ;\n") }},
	// generations that fail inside the generator (the specification itself is accepted): conflicting definitions, an
	// unresolved LALR(1) conflict
	{"generate-fail-definitions", func() string {
		return generateDigest("grammar gf ;\nAA = /[a-c]+/ ;\nBB = /[a-z]+/ ;\nstart = AA BB ;\n", false)
	}},
	// a generation that fails while it prepares the output location (the package directory exists already)
	{"generate-fail-occupied", func() string { return generateInto(specTwo, false, true) }},
	{"generate-fail-lalr", func() string {
		return generateDigest("grammar gl ;\nstart = e ;\ne = e \"+\" e | [ \"-\" \"-\" ] \"i\" ;\n", false)
	}},
	// operations that fail midway, each at a different stage: whatever they had begun must not stay behind
	{"fail-pattern-unclosed-groups", func() string { return patternDigest(`((a|b`) }},
	{"fail-pattern-deep-unclosed", func() string { return patternDigest(strings.Repeat("(", 40) + "a") }},
	{"fail-pattern-bracket", func() string { return patternDigest(`x[a-`) }},
	{"fail-pattern-ranges", func() string { return patternDigest(`(x{3,1}|[z-a]`) }},
	{"fail-ast-unclosed-groups", func() string { return astDigest(`((a|b`) }},
	{"fail-ast-class", func() string { return astDigest(`(\p{Nope}[^`) }},
	{"fail-spec-lexical", func() string {
		return parseDigest("grammar g ;\nAA = /[a-c]+/ ;\nstart = ( [ { \"a\" \"b\" # ;\n", false, false)
	}},
	{"fail-spec-syntax", func() string {
		return parseDigest("grammar g ;\n@left \"a\" ;\nstart = ( [ {{ \"a\" \"b\" }} [ \"a\" \"b\" ;\n", false, false)
	}},
	{"fail-spec-unterminated", func() string { return parseDigest("grammar g ;\nstart = [ \"a\" \"b\" ] \"abc ;\n", false, false) }},
	{"fail-spec-bad-pattern", func() string {
		return parseDigest("grammar g ;\nAA = /((a/ ;\nBB = /x{3,1}/ ;\nstart = AA BB ;\n", true, false)
	}},
}

// Fails reports whether an operation is one of those that fail midway; Cheap whether it may be repeated many times.
func treeDigest(text string) string {
	p, err := parser.New("f.g", strings.NewReader(text))
	if err != nil {
		return "ERROR " + err.Error()
	}
	root, err := p.ParseAndBuildAST()
	if err != nil {
		return "ERROR " + err.Error()
	}
	var b strings.Builder
	var walk func(n aparser.Node, depth int)
	walk = func(n aparser.Node, depth int) {
		switch v := n.(type) {
		case *aparser.LeafNode:
			fmt.Fprintf(&b, "%*s%s %q %s:%d:%d@%d\n", depth, "", v.Terminal, v.Lexeme, v.Position.Filename, v.Position.Line, v.Position.Column, v.Position.Offset)
		case *aparser.InternalNode:
			fmt.Fprintf(&b, "%*s%s <- %v\n", depth, "", v.NonTerminal, v.Production)
			for _, c := range v.Children {
				walk(c, depth+1)
			}
		default:
			fmt.Fprintf(&b, "%*s%T\n", depth, "", n)
		}
	}
	walk(root, 0)
	return b.String()
}

func Fails(i int) bool {
	return strings.HasPrefix(Ops[i].Name, "fail-") || strings.HasPrefix(Ops[i].Name, "generate-fail-")
}
func Cheap(i int) bool {
	return !strings.HasPrefix(Ops[i].Name, "generate-") || strings.HasPrefix(Ops[i].Name, "generate-fail-")
}

const (
	specRepLiteral = "grammar rep ;\nREP = \"a+\" ;\nNUMBER = /[0-9]+/ ;\nstart = REP NUMBER \";\" ;\n"
	specRepPattern = "grammar rep ;\nREP = /a+/ ;\nNUMBER = /[0-9]+/ ;\nstart = REP NUMBER \";\" ;\n"
)

// silent is a ui.UI that discards everything.
type silent struct{ level ui.Level }

func (u *silent) Printf(string, ...interface{})           {}
func (u *silent) GetLevel() ui.Level                      { return u.level }
func (u *silent) SetLevel(l ui.Level)                     { u.level = l }
func (u *silent) Tracef(ui.Style, string, ...interface{}) {}
func (u *silent) Debugf(ui.Style, string, ...interface{}) {}
func (u *silent) Infof(ui.Style, string, ...interface{})  {}
func (u *silent) Warnf(ui.Style, string, ...interface{})  {}
func (u *silent) Errorf(ui.Style, string, ...interface{}) {}

func generateDigest(text string, debug bool) string { return generateInto(text, debug, false) }

// generateInto generates into a fresh directory; with occupied the package directory exists already, so the generation
// fails while it prepares the output location. The observation holds the permission bits of everything written.
func generateInto(text string, debug, occupied bool) string {
	s, err := spec.Parse("f.g", strings.NewReader(text))
	if err != nil {
		return "ERROR " + err.Error()
	}
	dir, err := os.MkdirTemp("", "verif-c17-gen-")
	if err != nil {
		return "MKTEMP " + err.Error()
	}
	defer os.RemoveAll(dir)
	if occupied {
		_ = os.Mkdir(filepath.Join(dir, s.Name), 0o755)
	}
	if err := golang.Generate(&silent{}, &golang.Params{Debug: debug, Path: dir, Spec: s}); err != nil {
		return "GENERATE ERROR " + strings.ReplaceAll(err.Error(), dir, "<out>")
	}
	var files []string
	_ = filepath.Walk(dir, func(p string, info os.FileInfo, err error) error {
		if err == nil && !info.IsDir() {
			files = append(files, p)
		}
		return nil
	})
	sort.Strings(files)
	var b strings.Builder
	for _, f := range files {
		c, _ := os.ReadFile(f)
		rel, _ := filepath.Rel(dir, f)
		mode := os.FileMode(0)
		if info, err := os.Stat(f); err == nil {
			mode = info.Mode().Perm()
		}
		fmt.Fprintf(&b, "FILE %s %04o %x\n", rel, mode, sha256.Sum256(c))
	}
	return b.String()
}

const (
	specFive = "grammar same ;\n@right \"i\" \".\" ;\n@none \"x?\" ;\nstart = \"a|b\" \".\" \"x?\" \"[ab]\" item ;\nitem = \"i\" ;\n"
	specSix  = "grammar same ;\n@left \"i\" ;\nAB = /a|b/ ;\nANY = /./ ;\nOPT = /x?y/ ;\nITEM = /[ab]/ ;\nstart = AB \"i\" OPT ITEM item ;\nitem = ANY ;\n"
)

const specFour = "grammar four ;\nNEG = /\\P{Lu}+x/ ;\nANY = /a.c/ ;\nNOND = /\\D\\d/ ;\nWS = $WS ;\nstart = NEG ANY NOND WS ;\n"

func astDigest(p string) string {
	a, err := ast.Parse(p)
	if err != nil {
		return "ERROR " + err.Error()
	}
	// the raw numbering of ToDFA is arbitrary (it follows a shuffled set iteration); the observable is the automaton
	// up to renaming, so it is minimised and renumbered canonically first
	return a.ToDFA().Minimize().EliminateDeadStates().ReindexStates().String()
}

func patternDigest(p string) string {
	n, err := nfa.Parse(p)
	if err != nil {
		return "ERROR " + err.Error()
	}
	return n.ToDFA().Minimize().EliminateDeadStates().String()
}

// A result must stay what it was: the values an operation returned are rendered again after later (or concurrent)
// operations have finished and compared with the first rendering.
var (
	againMu sync.Mutex
	again   []func() string
)

func remember(first string, render func() string) {
	againMu.Lock()
	defer againMu.Unlock()
	again = append(again, func() string {
		if now := render(); now != first {
			return fmt.Sprintf("--- when it was returned ---\n%s\n--- now ---\n%s", first, now)
		}
		return ""
	})
}

// Recheck renders every remembered result again and returns the first difference ("" if none); it forgets them all.
func Recheck() (diff string) {
	againMu.Lock()
	fs := again
	again = nil
	againMu.Unlock()
	defer func() {
		if p := recover(); p != nil {
			diff = fmt.Sprintf("rendering an earlier result again panics: %v", p)
		}
	}()
	for _, f := range fs {
		if d := f(); d != "" {
			return d
		}
	}
	return ""
}

func parseDigest(text string, dfa, lalr bool) string {
	s, err := spec.Parse("f.g", strings.NewReader(text))
	if err != nil {
		return "ERROR " + err.Error()
	}
	first := renderSpec(s, dfa, lalr)
	remember(first, func() string { return renderSpec(s, dfa, lalr) })
	return first
}

func renderSpec(s *spec.Spec, dfa, lalr bool) string {
	var b strings.Builder
	fmt.Fprintf(&b, "name=%s\n", s.Name)
	var prods []string
	for p := range s.Grammar.Productions.All() {
		prods = append(prods, p.String())
	}
	sort.Strings(prods)
	fmt.Fprintf(&b, "%s\n", strings.Join(prods, "\n"))
	for _, d := range s.Definitions {
		fmt.Fprintf(&b, "D %q %q %v\n", d.Terminal, d.Value, d.IsRegex)
	}
	fmt.Fprintf(&b, "%s\n", s.Precedences)
	if dfa {
		d, tm, err := s.DFA()
		if err != nil {
			fmt.Fprintf(&b, "DFA ERROR %s\n", err)
		} else {
			b.WriteString(d.String())
			var ts []string
			for t, st := range tm {
				ts = append(ts, fmt.Sprintf("%s=%v", t, st))
			}
			sort.Strings(ts)
			fmt.Fprintf(&b, "%v\n", ts)
		}
	}
	if lalr {
		t, err := s.LALRParsingTable()
		if err != nil {
			fmt.Fprintf(&b, "LALR ERROR %s\n", err)
		} else {
			b.WriteString(t.String())
		}
	}
	return b.String()
}
