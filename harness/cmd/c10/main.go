// C10: the direct (followpos) construction and the NFA construction accept the same language, and both
// equal the documented meaning. Three-way product exploration per pattern (reference, nfa.Parse, ast.ToDFA).
package main

import (
	"fmt"

	"github.com/gardenbed/emerge/verif/ev"
	"github.com/gardenbed/emerge/verif/ref/regexref"
	"github.com/gardenbed/emerge/verif/rx"
)

func main() {
	r := ev.Start("C10", "model_checking")
	routes := rx.Routes{NFA: true, AST: true}
	if r.Replay != "" {
		var in struct{ Text string }
		if err := r.LoadReplay(&in); err != nil {
			ev.Fatal("%v", err)
		}
		t, err := regexref.Parse(in.Text)
		if err != nil {
			ev.Fatal("replay pattern not parseable by the reference: %v", err)
		}
		o := rx.CheckTree(t, routes)
		fmt.Printf("replay %q: ok=%v class=%q %s\n", in.Text, o.OK, o.Class, o.Msg)
		if !o.OK {
			r.Report(o.Class, o.Msg, in)
			for _, m := range o.More {
				r.Report(m.Class, m.Msg, in)
			}
		}
		r.Finish()
	}
	if r.Fork(16) {
		r.Set("rule", "the C02 pattern space plus closed families: every concatenation of <=4 operands from {a, a?, a*, (a|b?), (a?b?), b}, every {n,m} with n<=m<=3 and {n,} n<=3 over nullable and non-nullable bodies; non-trivial = product exploration visited > 1 state; distinct by pattern text")
		r.Set("evaluations", r.Get("patterns"))
		r.Set("traces_validated_against_impl", r.Get("patterns"))
		r.Finish()
	}
	r.Set("exhaustive", true)
	check := func(t *regexref.Expr, family string) {
		text := t.String()
		if !r.Mine(text) {
			return
		}
		if r.Expired() {
			r.Set("exhaustive", false)
			return
		}
		o := rx.CheckTree(t, routes)
		r.Add("patterns", 1)
		r.Add("patterns_"+family, 1)
		r.Add("states", o.States)
		r.Add("transitions", o.Transitions)
		if o.States > 1 {
			r.Distinct(text)
		}
		if r.Get("patterns")%997 == 1 {
			r.Sample(map[string]any{"pattern": text, "family": family, "product_states": o.States, "ok": o.OK})
		}
		if !o.OK {
			r.Report(o.Class, o.Msg, map[string]string{"Text": text})
			for _, m := range o.More {
				r.Report(m.Class, m.Msg, map[string]string{"Text": text})
			}
		}
	}
	mf, mr := rx.Space(r.Quick(), check)
	r.Set("bound_tree_size_full_pools", mf)
	r.Set("bound_tree_size_reduced_pools", mr)

	// nullable operands in every position
	ops := []string{"a", "a?", "a*", "(a|b?)", "(a?b?)", "b"}
	var rec func(cur string, n int)
	rec = func(cur string, n int) {
		if cur != "" {
			t, err := regexref.Parse(cur)
			if err != nil {
				ev.Fatal("family pattern %q: %v", cur, err)
			}
			check(t, "nullable_concat")
		}
		if n == 0 {
			return
		}
		for _, o := range ops {
			rec(cur+o, n-1)
		}
	}
	depth := 3
	if !r.Quick() {
		depth = 4
	}
	rec("", depth)
	// runs of several nullable operands between mandatory ones (one operand deeper over a reduced operand set)
	ops = []string{"a", "b?", "c*", "d"}
	rec("", depth+1)
	ops = []string{"a", "b?", "(c|d?)"}
	rec("", depth+2)
	// repetition ranges that duplicate a sub-expression
	bodies := []string{"a", "(ab)", "(a?)", "(a|b)", "(a*)", "(a?b)", "(ab?)", "."}
	for _, b := range bodies {
		for n := 0; n <= 3; n++ {
			for m := n; m <= 3; m++ {
				for _, ctx := range []string{"%s", "b%sb", "%s|b", "(%s)*"} {
					p := fmt.Sprintf(ctx, fmt.Sprintf("%s{%d,%d}", b, n, m))
					t, err := regexref.Parse(p)
					if err != nil {
						ev.Fatal("family pattern %q: %v", p, err)
					}
					check(t, "ranges")
				}
			}
			for _, q := range []string{"{%d}", "{%d,}"} {
				p := b + fmt.Sprintf(q, n) + "c"
				t, err := regexref.Parse(p)
				if err != nil {
					ev.Fatal("family pattern %q: %v", p, err)
				}
				check(t, "ranges")
			}
		}
	}
	// bracket groups assembled from every sequence of bracket tokens, where all derivations agree on the meaning (as C02)
	nb := 3
	if !r.Quick() {
		nb = 4
	}
	rx.BracketSpace(nb, func(a *regexref.Atom) { check(rx.AtomExpr(a), "bracket_contents") })
	r.Set("bound_bracket_tokens", nb)
	if !r.Quick() {
		rx.DeepSpace(check)
	}
	r.Assume("same reference and alphabet as C02; ast.ToDFA state numbering is ignored (language comparison only)")
	r.Finish()
}
