// C10: the direct (followpos) construction and the NFA construction accept the same language, and both
// equal the documented meaning. Three-way product exploration per pattern (reference, nfa.Parse, ast.ToDFA).
package main

import (
	"fmt"
	"strings"

	rast "github.com/gardenbed/emerge/internal/regex/parser/ast"
	"github.com/gardenbed/emerge/internal/regex/parser/nfa"
	"github.com/gardenbed/emerge/verif/ev"
	"github.com/gardenbed/emerge/verif/ref/dfaops"
	"github.com/gardenbed/emerge/verif/ref/regexref"
	"github.com/gardenbed/emerge/verif/rx"
)

// twoRoutes compares the two constructions with each other (no reference): for patterns whose meaning the documentation
// leaves open - anchors inside groups and under quantifiers - the property still demands that both routes accept the same
// language. Both must also agree on whether the pattern is accepted at all.
func twoRoutes(r *ev.Run, p string) {
	r.Add("patterns", 1)
	r.Add("patterns_two_routes", 1)
	in := map[string]string{"Text": p, "TwoRoutes": "yes"}
	var ms []dfaops.Machine
	var errN, errA error
	pan := func(f func()) (p any) {
		defer func() { p = recover() }()
		f()
		return nil
	}
	if x := pan(func() {
		n, err := nfa.Parse(p)
		errN = err
		if err == nil {
			ms = append(ms, dfaops.FromNFA(n))
		}
	}); x != nil {
		r.Add("panics_left_to_C14", 1)
		return
	}
	if x := pan(func() {
		a, err := rast.Parse(p)
		errA = err
		if err == nil {
			ms = append(ms, dfaops.FromDFA(a.ToDFA()))
		}
	}); x != nil {
		r.Add("panics_left_to_C14", 1)
		return
	}
	if (errN == nil) != (errA == nil) {
		r.Report("", fmt.Sprintf("pattern %q: nfa.Parse says %v, ast.Parse says %v", p, errN, errA), in)
		return
	}
	if errN != nil {
		return
	}
	res := dfaops.Compare(ms, []rune("abc\n"), 0)
	r.Add("states", res.States)
	r.Add("transitions", res.Transitions)
	if res.States > 1 {
		r.Distinct(p)
	}
	if !res.Equal {
		r.Report("", fmt.Sprintf("pattern %q: the two routes disagree on %s (NFA route accepts=%v, direct route accepts=%v)", p, dfaops.Quote(res.Witness), res.Verdicts[0], res.Verdicts[1]), in)
	}
}

func main() {
	r := ev.Start("C10", "model_checking")
	routes := rx.Routes{NFA: true, AST: true}
	if r.Replay != "" {
		var in struct{ Text string }
		if err := r.LoadReplay(&in); err != nil {
			ev.Fatal("%v", err)
		}
		if strings.ContainsAny(in.Text, "$^") {
			twoRoutes(r, in.Text)
			r.Finish()
		}
		t, err := regexref.Parse(in.Text)
		if err != nil {
			ev.Fatal("replay pattern not parseable by the reference: %v", err)
		}
		o := rx.CheckTree(t, routes)
		fmt.Printf("replay %q: ok=%v class=%q %s\n", in.Text, o.OK, o.Class, o.Msg)
		if !o.OK {
			r.Report(o.Class, o.Msg, in)
			for _, m := range o.More {
				r.Report(m.Class, m.Msg, in)
			}
		}
		r.Finish()
	}
	if r.Fork(16) {
		r.Set("rule", "the C02 pattern space plus closed families: every concatenation of <=4 operands from {a, a?, a*, (a|b?), (a?b?), b}, every {n,m} with n<=m<=3 and {n,} n<=3 over nullable and non-nullable bodies; bracket groups judged by all their derivations, keyword alternations; and patterns with anchors inside groups and under quantifiers, for which the two routes are compared with each other; non-trivial = product exploration visited > 1 state; distinct by pattern text")
		r.Set("evaluations", r.Get("patterns"))
		r.Set("traces_validated_against_impl", r.Get("patterns"))
		r.Finish()
	}
	r.Set("exhaustive", true)
	check := func(t *regexref.Expr, family string) {
		text := t.String()
		if !r.Mine(text) {
			return
		}
		if r.Expired() {
			r.Set("exhaustive", false)
			return
		}
		o := rx.CheckTree(t, routes)
		r.Add("patterns", 1)
		r.Add("patterns_"+family, 1)
		r.Add("states", o.States)
		r.Add("transitions", o.Transitions)
		if o.States > 1 {
			r.Distinct(text)
		}
		if r.Get("patterns")%997 == 1 {
			r.Sample(map[string]any{"pattern": text, "family": family, "product_states": o.States, "ok": o.OK})
		}
		if !o.OK {
			r.Report(o.Class, o.Msg, map[string]string{"Text": text})
			for _, m := range o.More {
				r.Report(m.Class, m.Msg, map[string]string{"Text": text})
			}
		}
	}
	mf, mr := rx.Space(r.Quick(), check)
	r.Set("bound_tree_size_full_pools", mf)
	r.Set("bound_tree_size_reduced_pools", mr)

	// nullable operands in every position
	ops := []string{"a", "a?", "a*", "(a|b?)", "(a?b?)", "b"}
	var rec func(cur string, n int)
	rec = func(cur string, n int) {
		if cur != "" {
			t, err := regexref.Parse(cur)
			if err != nil {
				ev.Fatal("family pattern %q: %v", cur, err)
			}
			check(t, "nullable_concat")
		}
		if n == 0 {
			return
		}
		for _, o := range ops {
			rec(cur+o, n-1)
		}
	}
	depth := 3
	if !r.Quick() {
		depth = 4
	}
	rec("", depth)
	// runs of several nullable operands between mandatory ones (one operand deeper over a reduced operand set)
	ops = []string{"a", "b?", "c*", "d"}
	rec("", depth+1)
	ops = []string{"a", "b?", "(c|d?)"}
	rec("", depth+2)
	// repetition ranges that duplicate a sub-expression
	bodies := []string{"a", "(ab)", "(a?)", "(a|b)", "(a*)", "(a?b)", "(ab?)", "."}
	for _, b := range bodies {
		for n := 0; n <= 3; n++ {
			for m := n; m <= 3; m++ {
				for _, ctx := range []string{"%s", "b%sb", "%s|b", "(%s)*"} {
					p := fmt.Sprintf(ctx, fmt.Sprintf("%s{%d,%d}", b, n, m))
					t, err := regexref.Parse(p)
					if err != nil {
						ev.Fatal("family pattern %q: %v", p, err)
					}
					check(t, "ranges")
				}
			}
			for _, q := range []string{"{%d}", "{%d,}"} {
				p := b + fmt.Sprintf(q, n) + "c"
				t, err := regexref.Parse(p)
				if err != nil {
					ev.Fatal("family pattern %q: %v", p, err)
				}
				check(t, "ranges")
			}
		}
	}
	// bracket groups assembled from every sequence of bracket tokens, where all derivations agree on the meaning (as C02)
	nb := 3
	if !r.Quick() {
		nb = 4
	}
	rx.BracketSpace(nb, func(a *regexref.Atom) { check(rx.AtomExpr(a), "bracket_contents") })
	r.Set("bound_bracket_tokens", nb)
	rx.BracketSpaceU(nb, func(a *regexref.Atom) { check(rx.AtomExpr(a), "bracket_contents_beyond_ascii") })
	kw := 5
	if !r.Quick() {
		kw = 7
	}
	rx.KeywordSpace(kw, check)
	rx.SequenceSpace(r.Quick(), check)
	rx.OverlapSpace(r.Quick(), check)
	rx.NestedQuantSpace(check)
	rx.PrefixAltSpace(check)
	rx.CountSpace(check)
	if !r.Quick() {
		rx.DeepSpace(check)
	}
	// anchors inside groups and under quantifiers: the two routes against each other
	pieces := []string{"a", "b", "$", "^", "(a|$)", "($|a)", "(^|b)", "(a|$|b)", "(a$|b)"}
	quants := []string{"", "+", "*", "?", "{2}", "{1,2}", "{2,}"}
	for _, p1 := range pieces {
		for _, q1 := range quants {
			if (p1 == "$" || p1 == "^") && q1 != "" {
				continue
			}
			for _, p2 := range append([]string{""}, pieces...) {
				for _, q2 := range []string{"", "+", "{2}"} {
					if (p2 == "" || p2 == "$" || p2 == "^") && q2 != "" {
						continue
					}
					p := p1 + q1 + p2 + q2
					if !strings.ContainsAny(p, "$^") || !r.Mine(p) {
						continue
					}
					twoRoutes(r, p)
					twoRoutes(r, "("+p+")+c")
				}
			}
		}
	}
	r.Assume("same reference and alphabet as C02; ast.ToDFA state numbering is ignored (language comparison only)")
	r.Finish()
}
