// C13: what emerge derives depends only on the token sequence, not on layout, padding, comments, optional
// semicolons, a final newline, the file length or the reader's buffer boundaries.
package main

import (
	"fmt"
	"os"
	"regexp"
	"sort"
	"strings"
	"time"

	"github.com/gardenbed/emerge/verif/ev"
	"github.com/gardenbed/emerge/verif/impl"
	"github.com/gardenbed/emerge/verif/ref/ebnfref"
)

var specs = []string{
	// 0: smallest
	"grammar a ; start = \"x\" ;",
	// 1: every declaration kind, every bracket
	"grammar calc ; NUM = /[0-9]+/ ID = $ID ; KW = \"let\" @left \"+\" \"-\" ; @left \"*\" @right < neg = e > @none \"=\" ; start = { stmt } ; stmt = KW ID \"=\" e \";\" | e \";\" ; e = e \"+\" e | e \"-\" e | e \"*\" e | neg | \"(\" e \")\" | NUM | ID ; neg = e ;",
	// 2: extended operators, trailing alternative, empty rule, strings with escapes, regex with escaped slash
	"grammar ops ; SL = /a\\/b/ ; QQ = \"a\\\"b\" ; start = [ xs ] {{ ys }} ( zs | SL | ) ; xs = { \"a\" \"b\" } ; ys = QQ | ; zs = ; ",
	// 3: no optional semicolons, no blanks needed between punctuation
	"grammar tight start = ( \"a\" | \"b\" ) [ \"c\" ] { \"d\" } {{ \"e\" }} ;",
	// 4: keywords as prefixes of identifiers, predefs
	"grammar grammarx ; WS = $WS ; NN = $NUMBER ; start = gramma grammar_ ; gramma = NN ; grammar_ = WS ;",
	// 5: directive with several rule handles
	"grammar h ; @left < e = e e > < e = e f e > ; @right \"^\" ; start = e ; e = e e | e f e | \"^\" | \"a\" ; f = ; ",
	// 6: invalid (semantic): positions in diagnostics
	"grammar bad ; TK = \"a\" ; TK = \"b\" ; UU = \"c\" ; VV = \"c\" ; start = TK UU VV WW ;",
	// 7: invalid (syntax)
	"grammar bad ; start = \"a\" = ;",
	// 8: invalid (lexical)
	"grammar bad ; start = \"a\" # ;",
	// 9: rules first, then directives whose rule handles repeat productions declared above (and one that is new)
	"grammar late ; start = e ; e = e \"+\" e | e e | \"a\" | f ; f = \"b\" ; @left < e = e \"+\" e > \"+\" ; @right < e = e e > < f = \"b\" > < f = \"b\" \"b\" > ; g = e ; @none < g = e > ;",
	// 10: the last declaration is a directive, its last handle each kind of handle in turn (token name, string, rule)
	"grammar tail ; PLUS = \"+\" ; MINUS = \"-\" ; start = e ; e = e PLUS e | e MINUS e | e \"*\" e | e e | \"a\" ; @left \"*\" < e = e e > ; @right PLUS MINUS ;",
	"grammar tails ; PLUS = \"+\" ; start = e ; e = e PLUS e | e \"*\" e | \"a\" ; @left PLUS ; @left \"*\" ;",
	"grammar tailr ; PLUS = \"+\" ; start = e ; e = e PLUS e | e e | \"a\" ; @left PLUS @right < e = e e > ;",
}

var posRE = regexp.MustCompile(`f\.g:(\d+):(\d+)`)

type baseline struct {
	toks   []ebnfref.Token
	placed []ebnfref.Placed
	res    *impl.Result
	// for error messages: message with every position replaced by the index of the token at that position
	errShape string
	defTok   []int // for each definition with a position: index of the token it points at
}

// shape replaces each f.g:L:C by @k where k is the index of the token starting there (or @?L:C).
func shape(msg string, placed []ebnfref.Placed, eofLine, eofCol int) string {
	// The order of the diagnostics (and of the positions listed under one diagnostic) is C15's business, not
	// this property's: lines are compared as a multiset.
	lines := strings.Split(shapeRaw(msg, placed), "\n")
	sort.Strings(lines)
	return strings.Join(lines, "\n")
}

func shapeRaw(msg string, placed []ebnfref.Placed) string {
	return posRE.ReplaceAllStringFunc(msg, func(m string) string {
		var l, c int
		fmt.Sscanf(m, "f.g:%d:%d", &l, &c)
		for i, p := range placed {
			if p.Line == l && p.Col == c {
				return fmt.Sprintf("@tok%d", i)
			}
		}
		return fmt.Sprintf("@?%d:%d", l, c)
	})
}

func mkBaseline(toks []ebnfref.Token) (*baseline, string) {
	text, placed := ebnfref.Render(toks, func(i int) string {
		if i == 0 {
			return ""
		}
		return " "
	}, "\n")
	b := &baseline{toks: toks, placed: placed, res: impl.Parse("f.g", text)}
	if b.res.Panic != "" {
		return nil, text
	}
	b.errShape = shape(b.res.Err, placed, 0, 0)
	for _, d := range b.res.Defs {
		if !d.HasPos {
			continue
		}
		k := -1
		for i, p := range placed {
			if p.Line == d.Line && p.Col == d.Col && p.Offset == d.Offset {
				k = i
			}
		}
		b.defTok = append(b.defTok, k)
	}
	return b, text
}

// checkLayout parses one re-laid-out text and compares it with the baseline.
var hung bool

func checkLayout(b *baseline, text string, placed []ebnfref.Placed) string {
	res, h := impl.ParseTimeout("f.g", text, 60*time.Second)
	if h {
		hung = true
		return "spec.Parse did not return within 60 s (the canonical layout is processed in milliseconds)"
	}
	if res.Panic != "" {
		return "" // C14
	}
	if res.OK() != b.res.OK() {
		return fmt.Sprintf("canonical layout: %s\nthis layout: %s", head(b.res.Digest()), head(res.Digest()))
	}
	if !res.OK() {
		if got := shape(res.Err, placed, 0, 0); got != b.errShape {
			return fmt.Sprintf("diagnostics differ (positions shown as token indices):\ncanonical: %s\nthis layout: %s\nraw: %s", b.errShape, got, res.Err)
		}
		return ""
	}
	if res.Digest() != b.res.Digest() {
		return fmt.Sprintf("derived result differs:\ncanonical:\n%s\nthis layout:\n%s", b.res.Digest(), res.Digest())
	}
	j := 0
	for _, d := range res.Defs {
		if !d.HasPos {
			continue
		}
		k := b.defTok[j]
		j++
		if k < 0 {
			continue
		}
		p := placed[k]
		if d.Line != p.Line || d.Col != p.Col || d.Offset != p.Offset {
			return fmt.Sprintf("definition of %s reported at offset %d line %d column %d, its token is at offset %d line %d column %d",
				d.Terminal, d.Offset, d.Line, d.Col, p.Offset, p.Line, p.Col)
		}
	}
	return ""
}

func head(s string) string {
	if len(s) > 300 {
		return s[:300] + "…"
	}
	return s
}

type layoutInput struct {
	Spec    int
	Variant string
	Text    string
}

func main() {
	r := ev.Start("C13", "exploration")
	if r.Replay != "" {
		var in layoutInput
		if err := r.LoadReplay(&in); err != nil {
			ev.Fatal("%v", err)
		}
		toks, err := ebnfref.TokensOfText(specs[in.Spec])
		if err != nil {
			// lexically invalid spec: compare whole-text outcome shapes only
			toks = nil
		}
		_ = toks
		replayText(r, in)
		r.Finish()
	}
	if r.Fork(16) {
		r.Set("rule", "13 specifications (10 valid covering every token kind, both orders of rules and rule handles and every kind of last handle of a final directive, 3 invalid) x layouts: every separator choice in every gap, a comment of three kinds in every gap, every generated short comment (block bodies over {*,/,x,blank,LF,CR} up to length 3 quick / 4 thorough, line bodies up to 2) in every gap, final newline/blank/comment variants, every subset of optional semicolons (<= 6 positions), and the padding sweep: every gap x every padding amount in the tier's range x 4 fillers (blanks, newlines, one long comment, short comments); non-trivial = a layout different from the canonical one; distinct by text hash")
		r.Set("evaluations", r.Get("layouts"))
		r.Finish()
	}
	r.Set("exhaustive", true)
	count := 0
	expired := false
	for si, src := range specs {
		toks, err := ebnfref.TokensOfText(src)
		if err != nil {
			// lexically invalid text: split at blanks instead (every piece is placed as a pseudo token)
			toks = nil
			for _, f := range strings.Fields(src) {
				toks = append(toks, ebnfref.Token{Kind: "?", Text: f, Lexeme: f})
			}
		}
		b, canon := mkBaseline(toks)
		if b == nil {
			continue
		}
		r.Sample(map[string]any{"spec": si, "canonical": canon, "accepted": b.res.OK()})
		try := func(variant string, sep func(i int) string, trailer string) {
			count++
			if !r.MineIdx(count) {
				return
			}
			if hung {
				// a runaway parse keeps burning a core: stop exploring in this process
				r.Set("exhaustive", false)
				return
			}
			if expired || (count%64 == 0 && r.Expired()) {
				expired = true
				r.Set("exhaustive", false)
				return
			}
			text, placed := ebnfref.Render(toks, sep, trailer)
			if os.Getenv("C13_TRACE") != "" {
				fmt.Fprintf(os.Stderr, "try: spec %d %s\n", si, variant)
				st := time.Now()
				defer func() {
					if d := time.Since(st); d > 50*time.Millisecond {
						fmt.Fprintf(os.Stderr, "slow: spec %d %s %v\n", si, variant, d)
					}
				}()
			}
			r.Add("layouts", 1)
			r.Add(fmt.Sprintf("layouts_spec%d", si), 1)
			r.Distinct(fmt.Sprintf("%d/%s", si, variant))
			if d := checkLayout(b, text, placed); d != "" {
				r.Report("", fmt.Sprintf("spec %d, layout %s: %s", si, variant, d), layoutInput{Spec: si, Variant: variant, Text: text})
			}
		}
		space := func(i int) string {
			if i == 0 {
				return ""
			}
			return " "
		}
		// separators: one gap at a time, and all gaps at once
		seps := []string{" ", "\t", "\n", "\r\n", "  ", "\n\n", " \t ", "\r"}
		for _, s := range seps {
			s := s
			try("all-gaps:"+fmt.Sprintf("%q", s), func(i int) string {
				if i == 0 {
					return ""
				}
				return s
			}, "\n")
			for g := 0; g <= len(toks); g++ {
				g := g
				if g == len(toks) {
					try(fmt.Sprintf("trailer:%q", s), space, s)
					continue
				}
				try(fmt.Sprintf("gap%d:%q", g, s), func(i int) string {
					if i == g {
						return s
					}
					return space(i)
				}, "\n")
			}
		}
		// no separator at all where the reference scanner still reads the same tokens (one gap at a time, and all
		// such gaps at once)
		sameTokens := func(text string) bool {
			got, err := ebnfref.TokensOfText(text)
			if err != nil || len(got) != len(toks) {
				return false
			}
			for i := range got {
				if got[i].Kind != toks[i].Kind || got[i].Lexeme != toks[i].Lexeme {
					return false
				}
			}
			return true
		}
		if toks[0].Kind != "?" {
			tight := map[int]bool{}
			for g := 1; g < len(toks); g++ {
				g := g
				one := func(i int) string {
					if i == 0 || i == g {
						return ""
					}
					return " "
				}
				if text, _ := ebnfref.Render(toks, one, "\n"); sameTokens(text) {
					tight[g] = true
					try(fmt.Sprintf("gap%d:none", g), one, "\n")
				}
			}
			all := func(i int) string {
				if i == 0 || tight[i] {
					return ""
				}
				return " "
			}
			if text, _ := ebnfref.Render(toks, all, ""); sameTokens(text) {
				try("all-tight", all, "")
				try("all-tight-nl", all, "\n")
			}
		}
		// comments in one gap
		for _, c := range []string{"// c\n", " /* c */ ", "/***/", " /* * / ** */", "//\n", "/**/", "\t// \"x\" = ;\n", " /* grammar g ; */ ", "// c\r", "// c\r\n", "//\r", "/* c */\r// d\r",
			// comments that hold the delimiters of the other constructs (a commented-out declaration, a quoted star)
			" /* \"*\" */ ", " /* *\" \"* */ ", " /* \" */ ", "// \"x\n", " /* /\\*\"/ */ ", " /* @left < e = e > ; // */ ", "// /* open\n"} {
			c := c
			for g := 0; g <= len(toks); g++ {
				g := g
				if g == len(toks) {
					try(fmt.Sprintf("trailer-comment:%q", c), space, " "+c)
					try(fmt.Sprintf("trailer-comment-nonl:%q", c), space, " "+strings.TrimRight(c, "\n"))
					continue
				}
				try(fmt.Sprintf("gap%d-comment:%q", g, c), func(i int) string {
					if i == g {
						if i == 0 {
							return c
						}
						return " " + c
					}
					return space(i)
				}, "\n")
			}
		}
		// every short comment: block comments with every body over {*, /, x, blank, LF, CR} up to the tier's length that
		// the reference scanner reads as one comment, line comments with every body over {*, /, x, ", CR} up to 2
		bodyLen := 3
		if !r.Quick() {
			bodyLen = 4
		}
		var generated []string
		var bodies func(alpha []string, n int, cur string, yield func(string))
		bodies = func(alpha []string, n int, cur string, yield func(string)) {
			yield(cur)
			if n == 0 {
				return
			}
			for _, a := range alpha {
				bodies(alpha, n-1, cur+a, yield)
			}
		}
		bodies([]string{"*", "/", "x", " ", "\n", "\r"}, bodyLen, "", func(b string) {
			if !strings.Contains(b, "*/") && !strings.HasPrefix(b, "/") {
				generated = append(generated, "/*"+b+"*/")
			}
		})
		bodies([]string{"*", "/", "x", "\"", "\r"}, 2, "", func(b string) { generated = append(generated, "//"+b+"\n") })
		for _, c := range generated {
			c := c
			if got, err := ebnfref.TokensOfText("a " + c + " b"); err != nil || len(got) != 2 || got[0].Lexeme != "a" || got[1].Lexeme != "b" {
				// not one whole comment for the reference scanner (e.g. a CR ends a line comment)
				r.Add("generated_comments_not_a_comment_for_the_reference", 1)
				continue
			}
			for g := 0; g <= len(toks); g++ {
				g := g
				one := func(i int) string {
					if i == g {
						if i == 0 {
							return c
						}
						return " " + c
					}
					return space(i)
				}
				trailer := "\n"
				if g == len(toks) {
					one, trailer = space, " "+c
				}
				if toks[0].Kind != "?" {
					if text, _ := ebnfref.Render(toks, one, trailer); !sameTokens(text) {
						r.Add("generated_comments_not_a_comment_for_the_reference", 1)
						continue
					}
				}
				try(fmt.Sprintf("gap%d-gencomment:%q", g, c), one, trailer)
			}
		}
		// final newline and friends
		for _, t := range []string{"", "\n", " ", "\n\n", "\r\n", "\t", " // end", " /* end */", "\n// end\n"} {
			try(fmt.Sprintf("trailer:%q", t), space, t)
		}
		// padding sweep
		maxPad := 2*4096 + 64
		fullSweep := si == 0 || si == 2 || si == 6
		inRange := func(p int) bool {
			near := p < 40 || (p > 4096-40 && p < 4096+40) || (p > 8192-40 && p < 8192+40)
			if r.Quick() {
				return near
			}
			// thorough: every amount for three specifications, every 7th amount plus the neighbourhoods of both
			// half boundaries for the others
			return fullSweep || near || p%7 == 0 || (p > 4096-100 && p < 4096+100) || (p > 8192-100 && p < 8192+100)
		}
		gaps := []int{}
		for g := 0; g <= len(toks); g++ {
			gaps = append(gaps, g)
		}
		if r.Quick() && len(gaps) > 8 {
			// quick: first 3, last 3 and two middle gaps
			gaps = []int{0, 1, 2, len(toks) / 2, len(toks)/2 + 1, len(toks) - 2, len(toks) - 1, len(toks)}
		}
		for _, g := range gaps {
			for p := 1; p <= maxPad; p++ {
				if !inRange(p) {
					continue
				}
				for _, filler := range []string{"blank", "lf", "comment", "comments"} {
					var pad string
					switch filler {
					case "blank":
						pad = strings.Repeat(" ", p)
					case "lf":
						pad = strings.Repeat("\n", p)
					case "comment":
						if p < 4 {
							continue
						}
						pad = "/*" + strings.Repeat("x", p-4) + "*/"
					case "comments":
						if p < 5 {
							continue
						}
						// comments of at most 1000 bytes, each "//…\n"
						var sb strings.Builder
						for left := p; left > 0; {
							n := left
							if n > 1000 {
								n = 1000
							}
							if left-n > 0 && left-n < 3 {
								n = left - 3
							}
							sb.WriteString("//" + strings.Repeat("y", n-3) + "\n")
							left -= n
						}
						pad = sb.String()
					}
					g, pad := g, pad
					variant := fmt.Sprintf("pad-gap%d-%s-%d", g, filler, p)
					if g == len(toks) {
						try(variant, space, " "+pad)
						continue
					}
					try(variant, func(i int) string {
						if i == g {
							if i == 0 {
								return pad
							}
							return " " + pad + " "
						}
						return space(i)
					}, "\n")
				}
			}
		}
		// far positions: every token (every gap, also in quick) pushed to a column, and to a line, just below, at and
		// beyond 4096, 8192 and 12288, with all tokens on one line, with one token per line and with a new line after every semicolon - so that a token
		// with a very large column is followed by tokens on later lines in small columns, and a token on a very late line
		// by tokens further right on that line
		for g := 0; g < len(toks); g++ {
			for _, p := range []int{4095, 4096, 4097, 8191, 8192, 8193, 12289} {
				if !r.Quick() || p != 8191 {
					for _, filler := range []string{" ", "\n"} {
						// layouts: all on one line; one token per line; a new line after every semicolon
						for vertical := 0; vertical < 3; vertical++ {
							g, pad, vertical := g, strings.Repeat(filler, p), vertical
							try(fmt.Sprintf("far-gap%d-%q-%d-layout%d", g, filler, p, vertical), func(i int) string {
								sep := space(i)
								if i > 0 && (vertical == 1 || (vertical == 2 && toks[i-1].Text == ";")) {
									sep = "\n"
								}
								if i == g {
									return sep + pad
								}
								return sep
							}, "\n")
						}
					}
				}
			}
		}
	}
	// optional semicolons: every subset of the optional positions of six specifications changes nothing
	semis(r)
	r.Assume("specification texts are ASCII and contain no NUL byte; no single token is longer than one buffer half (comments used as padding may be)")
	r.Finish()
}

func replayText(r *ev.Run, in layoutInput) {
	src := specs[in.Spec]
	toks, err := ebnfref.TokensOfText(src)
	if err != nil {
		toks = nil
		for _, f := range strings.Fields(src) {
			toks = append(toks, ebnfref.Token{Kind: "?", Text: f, Lexeme: f})
		}
	}
	b, _ := mkBaseline(toks)
	// recompute token positions in the recorded text by locating the token spellings in order
	placed := make([]ebnfref.Placed, len(toks))
	off, line, col, idx := 0, 1, 1, 0
	text := in.Text
	for k, t := range toks {
		j := strings.Index(text[idx:], t.Text)
		for j >= 0 && inComment(text, idx+j) {
			nj := strings.Index(text[idx+j+1:], t.Text)
			if nj < 0 {
				j = -1
				break
			}
			j = j + 1 + nj
		}
		if j < 0 {
			ev.Fatal("replay: token %q not found", t.Text)
		}
		for _, c := range text[idx : idx+j] {
			off++
			if c == '\n' {
				line++
				col = 1
			} else {
				col++
			}
		}
		placed[k] = ebnfref.Placed{Token: t, Offset: off, Line: line, Col: col}
		off += len(t.Text)
		col += len(t.Text)
		idx += j + len(t.Text)
	}
	if d := checkLayout(b, text, placed); d != "" {
		fmt.Println("replay:", d)
		r.Report("", fmt.Sprintf("spec %d, layout %s: %s", in.Spec, in.Variant, d), in)
	}
}

// inComment reports whether byte position p of text lies inside a // or /* */ comment (texts of this check
// never contain '/' inside strings or patterns except in spec 2, whose comments are only the inserted ones).
func inComment(text string, p int) bool {
	i := 0
	for i < p {
		switch {
		case strings.HasPrefix(text[i:], "//") && !inLiteral(text, i):
			j := strings.IndexByte(text[i:], '\n')
			if j < 0 || i+j >= p {
				return true
			}
			i += j + 1
		case strings.HasPrefix(text[i:], "/*") && !inLiteral(text, i):
			j := strings.Index(text[i+2:], "*/")
			if j < 0 || i+2+j+2 > p {
				return true
			}
			i += 2 + j + 2
		default:
			i++
		}
	}
	return false
}

// inLiteral: crude test used only by replay — is position i inside /…/ or "…" of the same line?
func inLiteral(text string, i int) bool {
	ls := strings.LastIndexByte(text[:i], '\n') + 1
	line := text[ls:i]
	return strings.Count(line, `"`)%2 == 1 || (strings.Contains(line, "= /") && strings.Count(line, "/")%2 == 1)
}

func semis(r *ev.Run) {
	for _, si := range []int{1, 3, 5, 10, 11, 12} {
		sp, err := ebnfref.ParseSpec(specs[si])
		if err != nil {
			ev.Fatal("semis: %v", err)
		}
		// collect the optional positions
		var flags []*bool
		flags = append(flags, &sp.NameSemi)
		for _, d := range sp.Decls {
			switch v := d.(type) {
			case *ebnfref.TokenDecl:
				flags = append(flags, &v.Semi)
			case *ebnfref.Directive:
				flags = append(flags, &v.Semi)
			}
		}
		if len(flags) > 8 {
			flags = flags[:8]
		}
		for _, f := range flags {
			*f = true
		}
		base := impl.Parse("f.g", sp.Text())
		for mask := 0; mask < 1<<len(flags); mask++ {
			if !r.MineIdx(mask) {
				continue
			}
			for i, f := range flags {
				*f = mask&(1<<i) != 0
			}
			text := sp.Text()
			// a directive without its semicolon swallows a following token declaration's name (greedy handles);
			// only variants the reference still reads as the same specification are comparable
			back, err := ebnfref.ParseSpec(text)
			if err != nil || len(back.Decls) != len(sp.Decls) {
				r.Add("semicolon_variants_not_equivalent_skipped", 1)
				continue
			}
			same := true
			for i := range back.Decls {
				same = same && fmt.Sprintf("%T", back.Decls[i]) == fmt.Sprintf("%T", sp.Decls[i])
			}
			if !same {
				r.Add("semicolon_variants_not_equivalent_skipped", 1)
				continue
			}
			res := impl.Parse("f.g", text)
			r.Add("layouts", 1)
			r.Add("layouts_semicolons", 1)
			r.Distinct(fmt.Sprintf("semi-%d-%d", si, mask))
			if res.Panic == "" && res.Digest() != base.Digest() {
				r.Report("", fmt.Sprintf("spec %d with optional semicolons %b:\n%s\nall semicolons:\n%s\nthis variant:\n%s", si, mask, text, head(base.Digest()), head(res.Digest())),
					layoutInput{Spec: si, Variant: fmt.Sprintf("semis-%b", mask), Text: text})
			}
		}
	}
}
