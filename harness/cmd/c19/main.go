// C19: compiled and run, the emitted lexer tokenises input exactly as the token automaton prescribes, independent
// of input length, buffer boundaries and a final newline. The emitted reader is explored with tiny buffer halves
// (every pointer configuration is reached by short texts) and with the real 4096-byte halves under a padding sweep.
package main

import (
	"bufio"
	"bytes"
	"fmt"
	"sort"
	"strconv"
	"strings"
	"sync"
	"unicode/utf8"

	"github.com/gardenbed/emerge/internal/ebnf/parser/spec"
	"github.com/gardenbed/emerge/verif/defs"
	"github.com/gardenbed/emerge/verif/emitted"
	"github.com/gardenbed/emerge/verif/ev"
	"github.com/gardenbed/emerge/verif/ref/dfaops"
)

const helperTmpl = `package %s

import (
	"errors"
	"fmt"
	"io"
	"strings"
)

// vreader delivers the text the ways an io.Reader may: 1: one byte per call; 2: everything at once TOGETHER with io.EOF;
// 3: three bytes per call with a zero-byte read (0, nil) before each; 4: seven bytes per call, the last piece together
// with io.EOF.
type vreader struct {
	data        []byte
	mode, calls int
}

func (r *vreader) Read(p []byte) (int, error) {
	r.calls++
	if len(p) == 0 {
		return 0, nil
	}
	if r.mode == 3 && r.calls%%2 == 1 {
		return 0, nil
	}
	if len(r.data) == 0 {
		return 0, io.EOF
	}
	k := len(p)
	switch r.mode {
	case 1:
		k = 1
	case 3:
		k = 3
	case 4:
		k = 7
	}
	if k > len(p) {
		k = len(p)
	}
	if k > len(r.data) {
		k = len(r.data)
	}
	copy(p, r.data[:k])
	r.data = r.data[k:]
	if len(r.data) == 0 && (r.mode == 2 || r.mode == 4) {
		return k, io.EOF
	}
	return k, nil
}

// VerifScan tokenises text with the emitted lexer (half size n > 0: newInput directly; n == 0: New) and prints
// one line per token and a final line. n / 100000 selects how the reader delivers the text.
func VerifScan(w io.Writer, text string, n int) {
	defer func() {
		if p := recover(); p != nil {
			fmt.Fprintf(w, "PANIC %%v\n", p)
		}
	}()
	var src io.Reader = strings.NewReader(text)
	if mode := n / 100000; mode > 0 {
		src = &vreader{data: []byte(text), mode: mode}
	}
	n %%= 100000
	var l *Lexer
	if n > 0 {
		in, err := newInput("f", src, n)
		if err != nil {
			if errors.Is(err, io.EOF) {
				fmt.Fprintf(w, "EOF\n")
			} else {
				fmt.Fprintf(w, "ERR %%q\n", err.Error())
			}
			return
		}
		l = &Lexer{in: in}
	} else {
		var err error
		l, err = New("f", src)
		if err != nil {
			if errors.Is(err, io.EOF) {
				fmt.Fprintf(w, "EOF\n")
			} else {
				fmt.Fprintf(w, "ERR %%q\n", err.Error())
			}
			return
		}
	}
	// a lexer can never yield more tokens than the text has bytes: anything beyond is a runaway loop
	for k := 0; k < 2*len(text)+16; k++ {
		tok, err := l.NextToken()
		if err != nil {
			if errors.Is(err, io.EOF) {
				fmt.Fprintf(w, "EOF\n")
			} else {
				fmt.Fprintf(w, "ERR %%q\n", err.Error())
			}
			return
		}
		fmt.Fprintf(w, "T %%q %%q %%d %%d %%d\n", string(tok.Terminal), tok.Lexeme, tok.Pos.Offset, tok.Pos.Line, tok.Pos.Column)
	}
	fmt.Fprintf(w, "ERR \"no end\"\n")
}
`

func mainSrc(names []string) string {
	var b strings.Builder
	b.WriteString("package main\n\nimport (\n\t\"bufio\"\n\t\"fmt\"\n\t\"os\"\n\t\"strconv\"\n\t\"strings\"\n")
	for _, n := range names {
		fmt.Fprintf(&b, "\t%q\n", "emitted/"+n)
	}
	b.WriteString(")\n\nfunc main() {\n\tout := bufio.NewWriter(os.Stdout)\n\tdefer out.Flush()\n\tsc := bufio.NewScanner(os.Stdin)\n\tsc.Buffer(make([]byte, 1<<20), 1<<26)\n\tfor sc.Scan() {\n\t\tf := strings.SplitN(sc.Text(), \" \", 3)\n\t\tn, _ := strconv.Atoi(f[1])\n\t\ttext, _ := strconv.Unquote(f[2])\n\t\tfmt.Fprintf(out, \"BEGIN\\n\")\n\t\tswitch f[0] {\n")
	for _, n := range names {
		fmt.Fprintf(&b, "\t\tcase %q:\n\t\t\t%s.VerifScan(out, text, n)\n", n, n)
	}
	b.WriteString("\t\t}\n\t}\n}\n")
	return b.String()
}

type prog struct {
	*emitted.Program
	ds      []defs.Def
	dfa     *dfaops.DFA
	owner   map[int]string
	classes []rune
}

type refTok struct {
	Term, Lexeme     string
	RuneOff, ByteOff int
	Line, Col        int
}

type refResult struct {
	toks    []refTok
	errLine int // > 0: lexical error at this position
	errCol  int
	maxRun  int // longest run in bytes including its look-ahead character
	maxKept int // the same over the runs whose text the reader must still hold: tokens that are emitted and runs ending in an error
}

var skipped = map[string]bool{"WS": true, "EOL": true, "COMMENT": true}

// reference tokenizer: from each token start follow the automaton as far as it goes; emit the terminal owning the
// state reached (skip WS/EOL/COMMENT), discard an unmatched blank, otherwise lexical error at the token start.
func (p *prog) tokenize(text string) refResult {
	var res refResult
	i, roff, line, col := 0, 0, 1, 1
	for i < len(text) {
		si, sroff, sline, scol := i, roff, line, col
		st := p.dfa.Start()
		j, jroff, jline, jcol := i, roff, line, col
		for j < len(text) {
			c, sz := utf8.DecodeRuneInString(text[j:])
			n := p.dfa.Step(st, c)
			if n == dfaops.Dead {
				if run := j + sz - si; run > res.maxRun {
					res.maxRun = run
				}
				break
			}
			st = n
			j += sz
			jroff++
			if c == '\n' {
				jline++
				jcol = 1
			} else {
				jcol++
			}
		}
		if j-si > res.maxRun {
			res.maxRun = j - si
		}
		run := j - si
		if j < len(text) {
			_, sz := utf8.DecodeRuneInString(text[j:])
			run += sz // the look-ahead character
		}
		if j == si {
			// nothing matched at all: an unmatched blank is discarded, anything else is a lexical error
			c, sz := utf8.DecodeRuneInString(text[i:])
			if c == ' ' || c == '\t' || c == '\n' || c == '\r' {
				i += sz
				roff++
				if c == '\n' {
					line++
					col = 1
				} else {
					col++
				}
				continue
			}
			res.errLine, res.errCol = sline, scol
			return res
		}
		term, acc := p.owner[st]
		if !p.dfa.Accepting(st) || !acc {
			res.maxKept = max(res.maxKept, run)
			res.errLine, res.errCol = sline, scol
			return res
		}
		if !skipped[term] {
			res.maxKept = max(res.maxKept, run)
			res.toks = append(res.toks, refTok{term, text[si:j], sroff, si, sline, scol})
		}
		i, roff, line, col = j, jroff, jline, jcol
	}
	return res
}

// compare the driver's output lines for one text with the reference.
func (p *prog) compare(text string, lines []string) string {
	want := p.tokenize(text)
	k := 0
	mode := "" // "rune" or "byte" offsets, fixed by the first token that distinguishes them
	for _, ln := range lines {
		switch {
		case strings.HasPrefix(ln, "T "):
			f := strings.Fields(ln)
			// lexeme may contain blanks: parse quoted strings sequentially
			rest := ln[2:]
			term, rest2, err := unq(rest)
			if err != nil {
				return "unparsable driver line " + ln
			}
			lex, rest3, err := unq(strings.TrimSpace(rest2))
			if err != nil {
				return "unparsable driver line " + ln
			}
			_ = f
			nums := strings.Fields(rest3)
			off, _ := strconv.Atoi(nums[0])
			line, _ := strconv.Atoi(nums[1])
			col, _ := strconv.Atoi(nums[2])
			if k >= len(want.toks) {
				return fmt.Sprintf("token %d: emitted lexer yields %s %q, the automaton yields no further token", k, term, lex)
			}
			w := want.toks[k]
			if term != w.Term || lex != w.Lexeme || line != w.Line || col != w.Col {
				return fmt.Sprintf("token %d: emitted lexer yields %s %q at %d:%d, the automaton prescribes %s %q at %d:%d", k, term, lex, line, col, w.Term, w.Lexeme, w.Line, w.Col)
			}
			switch {
			case off == w.RuneOff && off == w.ByteOff:
			case off == w.RuneOff && mode != "byte":
				mode = "rune"
			case off == w.ByteOff && mode != "rune":
				mode = "byte"
			default:
				return fmt.Sprintf("token %d (%s %q): offset %d, expected %d (characters) or %d (bytes), consistently", k, term, lex, off, w.RuneOff, w.ByteOff)
			}
			k++
		case ln == "EOF":
			if want.errLine > 0 {
				return fmt.Sprintf("emitted lexer reaches end of input, the automaton stops with a lexical error at %d:%d", want.errLine, want.errCol)
			}
			if k != len(want.toks) {
				return fmt.Sprintf("emitted lexer reaches end of input after %d tokens, the automaton prescribes %d (next: %s %q)", k, len(want.toks), want.toks[k].Term, want.toks[k].Lexeme)
			}
			return ""
		case strings.HasPrefix(ln, "ERR "):
			msg, _, _ := unq(ln[4:])
			if want.errLine == 0 {
				return fmt.Sprintf("emitted lexer reports %q, the automaton tokenises the whole text (%d tokens)", msg, len(want.toks))
			}
			if k != len(want.toks) {
				return fmt.Sprintf("emitted lexer reports %q after %d tokens, the automaton prescribes %d tokens before the error", msg, k, len(want.toks))
			}
			if !strings.Contains(msg, fmt.Sprintf("f:%d:%d", want.errLine, want.errCol)) {
				return fmt.Sprintf("emitted lexer reports %q, the lexical error is at %d:%d", msg, want.errLine, want.errCol)
			}
			return ""
		case strings.HasPrefix(ln, "PANIC"):
			return "emitted lexer panics: " + ln
		}
	}
	return "driver output ended without EOF/ERR"
}

func unq(s string) (string, string, error) {
	if len(s) == 0 || s[0] != '"' {
		return "", s, fmt.Errorf("no quote")
	}
	for i := 1; i < len(s); i++ {
		if s[i] == '\\' {
			i++
			continue
		}
		if s[i] == '"' {
			v, err := strconv.Unquote(s[:i+1])
			return v, s[i+1:], err
		}
	}
	return "", s, fmt.Errorf("unterminated")
}

// symbol classes of the automaton: one representative per distinct transition signature, plus blank, LF,
// multi-byte and unmatched characters
func classesOf(d *dfaops.DFA) []rune {
	sig := map[string]rune{}
	cands := append([]rune{}, d.Symbols()...)
	cands = append(cands, ' ', '\n', '\t', 0xE9, 0x1F600, '~', '\r')
	states := d.States()
	for _, c := range cands {
		var b strings.Builder
		for _, s := range states {
			fmt.Fprintf(&b, "%d,", d.Step(s, c))
		}
		fmt.Fprintf(&b, "|%v%v|%d", c == '\n', c == ' ' || c == '\t' || c == '\r', utf8.RuneLen(c))
		if _, ok := sig[b.String()]; !ok {
			sig[b.String()] = c
		}
	}
	out := []rune{}
	for _, c := range sig {
		out = append(out, c)
	}
	sort.Slice(out, func(i, j int) bool { return out[i] < out[j] })
	return out
}

type job struct {
	p    *prog
	n    int
	text string
	mode int // how the io.Reader delivers the text (0: in one piece; see vreader in the helper)
}

func main() {
	r := ev.Start("C19", "model_checking")
	sets := defs.Sets()
	if !r.Quick() {
		more := defs.MoreSets()
		for i := 0; i < len(more); i += 5 {
			sets = append(sets, more[i])
		}
	}
	var progs []*prog
	var eprogs []*emitted.Program
	for i, ds := range sets {
		name := fmt.Sprintf("q%03d", i)
		text := defs.SpecText(name, ds)
		p := &prog{Program: &emitted.Program{Name: name, SpecText: text}, ds: ds}
		s, err := spec.Parse("f.g", strings.NewReader(text))
		if err != nil {
			ev.Fatal("harness specification rejected: %v\n%s", err, text)
		}
		p.Spec = s
		d, tm, err := s.DFA()
		if err != nil {
			continue
		}
		p.dfa = dfaops.FromDFA(d)
		if p.dfa.Accepting(p.dfa.Start()) {
			continue // a terminal matching the empty text: what a scanner does with it is not prescribed (left to C08)
		}
		p.owner = map[int]string{}
		for t, states := range tm {
			for _, st := range states {
				p.owner[int(st)] = string(t)
			}
		}
		p.classes = classesOf(p.dfa)
		progs = append(progs, p)
		eprogs = append(eprogs, p.Program)
	}
	if r.Quick() && len(progs) > 8 {
		progs, eprogs = progs[:8], eprogs[:8]
	}
	batch, err := emitted.Emit(eprogs)
	if batch != nil {
		r.OnFinish(batch.Close)
	}
	if err != nil {
		ev.Fatal("emit: %v", err)
	}
	var names []string
	for _, p := range progs {
		if p.OK() {
			names = append(names, p.Name)
		} else {
			r.Report("", fmt.Sprintf("the emitted package does not compile (see C08): %s %v", p.GenErr, p.BuildErr), map[string]any{"Program": p.Name})
		}
	}
	r.Set("programs", len(names))
	if len(names) == 0 {
		r.Set("states", 1)
		r.Set("transitions", 1)
		r.Finish()
	}
	bin, err := batch.Driver(func(p *emitted.Program) string { return fmt.Sprintf(helperTmpl, p.Name) }, mainSrc(names))
	if err != nil {
		r.Report("", fmt.Sprintf("driver does not build: %v", err), map[string]any{"Program": "driver"})
		r.Finish()
	}
	// job list
	maxLen := 4
	if !r.Quick() {
		maxLen = 5
	}
	r.Set("bound_text_length", maxLen)
	var jobs []job
	for pi, p := range progs {
		if !p.OK() {
			continue
		}
		cl := p.classes
		if len(cl) > 9 {
			// keep the enumeration bounded: prefer characters with transitions from the start state and the blanks
			sort.SliceStable(cl, func(i, j int) bool {
				return (p.dfa.Step(p.dfa.Start(), cl[i]) != dfaops.Dead) && (p.dfa.Step(p.dfa.Start(), cl[j]) == dfaops.Dead)
			})
			keep := cl[:7]
			for _, c := range []rune{' ', '\n'} {
				keep = append(keep, c)
			}
			cl = keep
		}
		var buf []rune
		var gen func(n int)
		gen = func(n int) {
			if len(buf) > 0 {
				text := string(buf)
				res := p.tokenize(text)
				for _, half := range []int{4, 5, 8, 0} {
					if half > 0 && res.maxKept > half-1 {
						continue
					}
					// the real half size cannot be crossed by a short text: one length less is enough there
					if half == 0 && len(buf) > maxLen-1 {
						continue
					}
					jobs = append(jobs, job{p, half, text, 0})
				}
			}
			if n == 0 {
				return
			}
			for _, c := range cl {
				buf = append(buf, c)
				gen(n - 1)
				buf = buf[:len(buf)-1]
			}
		}
		gen(maxLen)
		// padding sweep with the real half size: three token sequences, every padding around both boundaries
		// (each discarded blank costs the emitted reader two 32 KiB allocations, so the sweep is kept narrow:
		// quick: 3 programs, paddings within 40 of both boundaries; thorough: all programs, every 16th padding too)
		seqs := sweepTexts(p)
		if (r.Quick() && pi%3 != 0) || pi >= len(defs.Sets()) {
			seqs = nil
		}
		for si, s := range seqs {
			if r.Quick() && si > 1 {
				break
			}
			for pad := 0; pad <= 2*4096+40; pad++ {
				near := pad < 8 || (pad > 4096-40 && pad < 4096+12) || (pad > 8192-40 && pad < 8192+12)
				if !near && (r.Quick() || pad%16 != 0) {
					continue
				}
				for _, filler := range []string{" ", "\n"} {
					jobs = append(jobs, job{p: p, n: 0, text: s[0] + strings.Repeat(filler, pad) + s[1]})
					if !r.Quick() {
						jobs = append(jobs, job{p: p, n: 0, text: strings.Repeat(filler, pad) + s[0] + " " + s[1] + "\n"})
					}
				}
			}
		}
	}
	// the reader side: the same token streams whatever way the io.Reader delivers the text - byte by byte, the last piece
	// together with io.EOF, zero-byte reads in between, pieces that do not divide the buffer half - for every short text
	// with the tiny halves and for texts ending around the real half size
	for pi, p := range progs {
		if !p.OK() {
			continue
		}
		var short []job
		for _, j := range jobs {
			if j.p == p && j.mode == 0 && (j.n == 4 || j.n == 0) && len(j.text) <= 3 {
				short = append(short, j)
			}
		}
		for _, j := range short {
			for mode := 1; mode <= 4; mode++ {
				if r.Quick() && (pi+mode)%2 == 0 && j.n == 4 {
					continue
				}
				jobs = append(jobs, job{p, j.n, j.text, mode})
			}
		}
		word := ""
		for _, w := range []string{"ab", "if", "le", "42", "=", "+", "x1", "a", "z"} {
			if res := p.tokenize(w); res.errLine == 0 && len(res.toks) == 1 {
				word = w
				break
			}
		}
		if word == "" {
			continue
		}
		for _, total := range []int{4094, 4095, 4096, 4097, 8191, 8192, 8193, 8199} {
			text := strings.Repeat(" ", total-2*len(word)-1) + word + " " + word
			for mode := 2; mode <= 4; mode++ {
				jobs = append(jobs, job{p, 0, text, mode})
			}
		}
	}
	// every character that might be mistaken for a blank, a line end or an end marker, alone and next to a token:
	// all C0 controls, DEL, the C1 control NEL, every Unicode white-space and zero-width character, the byte-order mark,
	// the replacement character and the last code point - only blank, tab, LF and CR may be discarded
	specials := []rune{}
	for c := rune(0); c < 0x20; c++ {
		specials = append(specials, c)
	}
	specials = append(specials, 0x7F, 0x85, 0xA0, 0x1680, 0x2000, 0x2003, 0x200A, 0x200B, 0x2028, 0x2029, 0x202F, 0x205F, 0x2060, 0x3000, 0xFEFF, 0xFFFD, 0x10FFFF)
	for _, p := range progs {
		if !p.OK() {
			continue
		}
		word := ""
		for _, w := range []string{"ab", "if", "le", "42", "=", "+", "x1", "a", "z"} {
			if res := p.tokenize(w); res.errLine == 0 && len(res.toks) == 1 {
				word = w
				break
			}
		}
		for _, c := range specials {
			cs := string(c)
			texts := []string{cs, cs + cs, " " + cs, cs + "\n", "\n" + cs + "\n"}
			if word != "" {
				texts = append(texts, word+cs, cs+word, word+cs+word, word+" "+cs+" "+word, word+"\n"+cs+word+"\n", word+cs+cs+word)
			}
			for _, text := range texts {
				jobs = append(jobs, job{p, 0, text, 0})
				if res := p.tokenize(text); res.maxKept <= 7 {
					jobs = append(jobs, job{p, 8, text, 0})
				}
			}
		}
	}
	// a multi-byte character as look-ahead (retracted rune) or as token start at every offset around the boundaries:
	// with the real half size (4096, wrap at 8192) and with tiny halves (wrap at 2n)
	for pi, p := range progs {
		if !p.OK() || (r.Quick() && pi%2 != 0) {
			continue
		}
		word := ""
		for _, w := range []string{"ab", "if", "le", "42", "=", "+", "x1"} {
			if res := p.tokenize(w); res.errLine == 0 && len(res.toks) == 1 {
				word = w
				break
			}
		}
		if word == "" {
			continue
		}
		for _, mb := range []string{"é", "≤", "😀"} {
			for _, boundary := range []int{4096, 8192, 12288} {
				for d := -6; d <= 2; d++ {
					pad := boundary + d - len(word)
					if pad < 0 {
						continue
					}
					jobs = append(jobs, job{p: p, n: 0, text: strings.Repeat(" ", pad) + word + mb + word})
					jobs = append(jobs, job{p: p, n: 0, text: strings.Repeat("\n", pad) + word + mb + " " + word + "\n"})
				}
			}
			for _, half := range []int{4, 5, 8} {
				if len(word)+len(mb) > half-1 {
					continue
				}
				for pad := 0; pad <= 4*half+2; pad++ {
					for _, text := range []string{strings.Repeat(" ", pad) + word + mb + word, strings.Repeat(" ", pad) + word + " " + mb + mb + word} {
						// only texts whose longest run plus look-ahead fits in one half
						if res := p.tokenize(text); res.maxKept <= half-1 {
							jobs = append(jobs, job{p, half, text, 0})
						}
					}
				}
			}
		}
	}
	// skipped tokens of any length (the reader never has to hold their text): a skipped token of L characters between
	// two tokens, for every L around the sizes at which the reader's buffer halves and position stacks wrap - with the
	// real half size, and with the tiny halves for every L up to five halves
	for pi, p := range progs {
		if !p.OK() {
			continue
		}
		word := ""
		for _, w := range []string{"ab", "if", "le", "42", "=", "+", "x1", "a", "z"} {
			if res := p.tokenize(w); res.errLine == 0 && len(res.toks) == 1 {
				word = w
				break
			}
		}
		var forms []func(int) string
		for _, f := range []func(int) string{
			func(l int) string { return strings.Repeat(" ", l) },
			func(l int) string { return strings.Repeat("\n", l) },
			func(l int) string { return strings.Repeat(" \n", l/2) + strings.Repeat(" ", l%2) },
			func(l int) string { return strings.Repeat("5", l) },
			func(l int) string { return strings.Repeat("6", l) },
			func(l int) string { return strings.Repeat("7", l) },
			func(l int) string { return "/*" + strings.Repeat("x", max(l-4, 0)) + "*/" },
			func(l int) string { return "/*" + strings.Repeat("é\n", max(l-4, 0)/2) + "*/" },
			func(l int) string { return "//" + strings.Repeat("x", max(l-3, 0)) + "\n" },
			func(l int) string { return ";" + strings.Repeat("\n", max(l-1, 0)) },
		} {
			// the form is one skipped token of this program (not a sequence of individually discarded blanks)
			if res := p.tokenize(f(12)); res.errLine == 0 && len(res.toks) == 0 && res.maxRun >= len(f(12)) {
				forms = append(forms, f)
			}
		}
		if word == "" || len(forms) == 0 {
			continue
		}
		r.Add("programs_with_long_skipped_tokens", 1)
		var sizes []int
		for _, b := range []int{4096, 8192, 12288} {
			for d := -3; d <= 3; d++ {
				if r.Quick() && (d < -1 || d > 1) {
					continue
				}
				sizes = append(sizes, b+d)
			}
		}
		if !r.Quick() {
			sizes = append(sizes, 16384, 16385, 20000, 40000)
		}
		for fi, f := range forms {
			for _, l := range sizes {
				if r.Quick() && (pi+fi)%2 != 0 && l > 4200 {
					continue
				}
				jobs = append(jobs, job{p: p, n: 0, text: word + f(l) + word + "\n" + word})
				jobs = append(jobs, job{p: p, n: 0, text: f(l) + word})
			}
			for _, half := range []int{4, 5, 8} {
				if len(word)+1 > half-1 {
					continue
				}
				for l := 1; l <= 5*half+1; l++ {
					for _, text := range []string{word + f(l) + word + "\n" + word, f(l) + word + f(l), word + f(l) + f(3)} {
						if res := p.tokenize(text); res.maxKept <= half-1 {
							jobs = append(jobs, job{p, half, text, 0})
						}
					}
				}
			}
		}
	}
	// the property covers tokens that fit in one buffer half: drop every text in which the longest run whose text the
	// reader must hold (an emitted token, or a run ending in an error) plus its look-ahead does not; skipped tokens and
	// discarded blanks may be of any length
	kept := jobs[:0]
	for _, j := range jobs {
		half := j.n
		if half == 0 {
			half = 4096
		}
		if res := j.p.tokenize(j.text); res.maxKept > half-1 {
			r.Add("texts_with_a_run_longer_than_a_half_dropped", 1)
			continue
		}
		kept = append(kept, j)
	}
	jobs = kept
	r.Set("executions_planned", len(jobs))
	// run in chunks, 16 driver processes at a time
	const chunk = 4000
	confs := map[string]bool{}
	type result struct {
		start, end int
		out        []byte
		err        error
	}
	var starts []int
	for st := 0; st < len(jobs); st += chunk {
		starts = append(starts, st)
	}
	results := make([]result, len(starts))
	sem := make(chan struct{}, 16)
	var wg sync.WaitGroup
	for i, st := range starts {
		end := st + chunk
		if end > len(jobs) {
			end = len(jobs)
		}
		results[i] = result{start: st, end: end}
		if r.Expired() {
			results[i].err = fmt.Errorf("deadline")
			continue
		}
		wg.Add(1)
		sem <- struct{}{}
		go func(i, st, end int) {
			defer wg.Done()
			defer func() { <-sem }()
			var stdin bytes.Buffer
			for _, j := range jobs[st:end] {
				fmt.Fprintf(&stdin, "%s %d %s\n", j.p.Name, j.n+100000*j.mode, strconv.Quote(j.text))
			}
			results[i].out, results[i].err = emitted.Run(bin, stdin.Bytes())
		}(i, st, end)
	}
	wg.Wait()
	for _, res := range results {
		start, end := res.start, res.end
		if res.err != nil {
			if res.err.Error() == "deadline" {
				continue
			}
			r.Report("", fmt.Sprintf("the driver linked with the emitted lexers crashed: %v", res.err), map[string]any{"Program": "driver"})
			continue
		}
		blocks := strings.Split(string(res.out), "BEGIN\n")[1:]
		if len(blocks) != end-start {
			r.Report("", fmt.Sprintf("driver answered %d of %d texts", len(blocks), end-start), map[string]any{"Program": "driver"})
			continue
		}
		for k, blk := range blocks {
			j := jobs[start+k]
			sc := bufio.NewScanner(strings.NewReader(blk))
			sc.Buffer(make([]byte, 1<<16), 1<<24)
			var lines []string
			for sc.Scan() {
				lines = append(lines, sc.Text())
			}
			r.Add("executions", 1)
			r.Add("transitions", len(j.text)+1)
			confs[fmt.Sprintf("%s/%d/%d", j.p.Name, j.n, len(j.text)%(2*max(j.n, 1)))] = true
			if d := j.p.compare(j.text, lines); d != "" {
				short := j.text
				if len(short) > 80 {
					short = fmt.Sprintf("%q…(%d bytes)…%q", short[:30], len(short), short[len(short)-30:])
				} else {
					short = strconv.Quote(short)
				}
				r.Report("", fmt.Sprintf("%s, buffer half %d, reader mode %d, text %s: %s\n%s", j.p.Name, j.n, j.mode, short, d, j.p.SpecText), map[string]any{"Program": j.p.Name, "Half": j.n, "Text": j.text, "Mode": j.mode})
			}
			if (start+k)%50021 == 0 {
				r.Sample(map[string]any{"program": j.p.Name, "half": j.n, "text": j.text, "driver_output": lines})
			}
		}
	}
	r.Set("exhaustive", r.Get("executions") == len(jobs))
	r.Set("states", len(confs))
	r.Set("traces_validated_against_impl", r.Get("executions"))
	r.Set("evaluations", r.Get("executions"))
	r.Set("distinct_nontrivial", r.Get("executions"))
	r.Set("rule", "per emitted program: every text up to the length bound over one representative per symbol class of its automaton plus blank, LF, multi-byte and unmatched characters, run with buffer halves 4, 5, 8 (texts whose longest run plus look-ahead fits in one half) and through New (4096); plus a padding sweep carrying tokens across offsets 4096 and 8192; plus skipped tokens (blank runs, newline runs, comments) of every length around 4096, 8192 and 12288 characters between tokens (and of every length up to five halves with the tiny halves); plus 49 special characters (all C0 controls, DEL, NEL, every Unicode white-space / zero-width character, BOM, U+FFFD, U+10FFFF) alone and next to a token (only blank, tab, LF, CR may be discarded); states = distinct (program, half size, text length mod buffer size) reader configurations exercised; transitions = characters fed")
	r.Assume("reference: maximal run without backtracking as the property states; WS/EOL/COMMENT skipped; an unmatched space, tab, LF or CR is discarded; offsets accepted in characters or in bytes if consistent; no emitted token (or erroneous run) longer than one buffer half (the documented limit of the two-buffer scheme, docs/3-lexer_theory.md); skipped tokens may be of any length")
	r.Finish()
}

func sweepTexts(p *prog) [][2]string {
	// two tokens of the program separated by padding: built from the literal definitions and simple matches
	var words []string
	for _, d := range p.ds {
		if d.Literal {
			words = append(words, defs.Unescape(d.Src))
		}
	}
	for _, w := range []string{"ab", "x1", "42", "if", "le"} {
		if res := p.tokenize(w); res.errLine == 0 && len(res.toks) == 1 {
			words = append(words, w)
		}
	}
	var out [][2]string
	for i := 0; i+1 < len(words) && len(out) < 3; i++ {
		out = append(out, [2]string{words[i], words[i+1]})
	}
	return out
}
