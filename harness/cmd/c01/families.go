package main

import (
	"fmt"
	"strings"

	"github.com/gardenbed/emerge/verif/ev"
	"github.com/gardenbed/emerge/verif/ref/ebnfref"
)

var brackets = [][2]string{{"(", ")"}, {"[", "]"}, {"{", "}"}, {"{{", "}}"}}
var suffix = []string{"group", "opt", "star", "plus"}

func wrap(b int, operand string) string {
	return brackets[b][0] + " " + operand + " " + brackets[b][1]
}

// punctuation names emerge uses when it synthesises a rule name for a single-character string terminal
var terminalNames = map[string]string{
	"!": "exclam", `\"`: "dquot", "#": "hash", "$": "dollar", "%": "percent", "&": "ampersand", "'": "squot",
	"(": "lparen", ")": "rparen", "*": "star", "+": "plus", ",": "comma", "-": "dash", ".": "dot", "/": "slash",
	":": "colon", ";": "semi", "<": "lt", "=": "equal", ">": "gt", "?": "question", "@": "atsign", "[": "lbrack",
	`\\`: "backslash", "]": "rbrack", "^": "caret", "_": "underscore", "`": "backtick", "{": "rbrace", "|": "bar",
	"}": "lbrace", "~": "tilde",
}

func families(run func(sp *ebnfref.Spec, family string)) {
	mk := func(family, text string) {
		sp, err := ebnfref.ParseSpec(text)
		if err != nil {
			ev.Fatal("family %s: reference cannot read %q: %v", family, text, err)
		}
		run(sp, family)
	}
	const helpers = "TK = \"t\"\nx = \"a\" | \"b\" x ;\ny = \"b\" | ;\nstar = \"c\" ;\n"
	operands := []string{`x`, `"a"`, `"a" "b"`, `"a" | "b"`, `"*"`, `star`, `y`, `TK`, `x y`, `"a" |`}
	// (i) the same operand under several different operators
	for _, o := range operands {
		for b1 := 0; b1 < 4; b1++ {
			for b2 := 0; b2 < 4; b2++ {
				mk("same_operand_pairs", fmt.Sprintf("grammar g\n%sstart = %s %s ;\n", helpers, wrap(b1, o), wrap(b2, o)))
				mk("same_operand_pairs", fmt.Sprintf("grammar g\n%sstart = %s z ;\nz = %s ;\n", helpers, wrap(b1, o), wrap(b2, o)))
				mk("same_operand_pairs", fmt.Sprintf("grammar g\n%sz = %s ;\nstart = z %s ;\n", helpers, wrap(b1, o), wrap(b2, o)))
				mk("same_operand_nested", fmt.Sprintf("grammar g\n%sstart = %s ;\n", helpers, wrap(b1, wrap(b2, o))))
				mk("same_operand_nested", fmt.Sprintf("grammar g\n%sstart = %s %s ;\n", helpers, wrap(b1, wrap(b2, o)), wrap(b2, o)))
				for b3 := 0; b3 < 4; b3++ {
					mk("same_operand_triples", fmt.Sprintf("grammar g\n%sstart = %s %s %s ;\n", helpers, wrap(b1, o), wrap(b2, o), wrap(b3, o)))
					mk("same_operand_triples", fmt.Sprintf("grammar g\n%sstart = %s | %s %s ;\n", helpers, wrap(b1, o), wrap(b2, o), wrap(b3, o)))
				}
			}
		}
	}
	// (i') different sub-expressions that look alike (same symbols, different structure) under the same operator
	for _, pair := range [][2]string{{`"a" "b"`, `"a" | "b"`}, {`x`, `x |`}, {`x y`, `x | y`}, {`"a" "b" | "c"`, `"a" | "b" "c"`}, {`"a" "b"`, `"b" "a"`}, {`x x`, `x`}, {`"a" | "b"`, `"a" | "b" |`}, {`"a" TK`, `"a" | TK`}} {
		for b := 0; b < 4; b++ {
			mk("look_alikes", fmt.Sprintf("grammar g\n%sstart = %s \"c\" %s ;\n", helpers, wrap(b, pair[0]), wrap(b, pair[1])))
			mk("look_alikes", fmt.Sprintf("grammar g\n%sstart = %s \"c\" %s ;\n", helpers, wrap(b, pair[1]), wrap(b, pair[0])))
			mk("look_alikes", fmt.Sprintf("grammar g\n%sstart = %s z ;\nz = %s ;\n", helpers, wrap(b, pair[0]), wrap(b, pair[1])))
		}
	}
	// (ii) user rules named like the names emerge synthesises
	for b := 0; b < 4; b++ {
		for _, c := range []struct{ operand, stem string }{{`x`, "gen_x_"}, {`"a" "b"`, "gen1_"}, {`"*"`, "gen_star_"}, {`"a"`, "gen1_"}, {`y`, "gen_y_"}} {
			name := c.stem + suffix[b]
			use := wrap(b, c.operand)
			mk("synthesised_names", fmt.Sprintf("grammar g\n%s%s = \"b\" ;\nstart = %s %s ;\n", helpers, name, use, name))
			mk("synthesised_names", fmt.Sprintf("grammar g\n%sstart = %s %s ;\n%s = \"b\" ;\n", helpers, use, name, name))
			mk("synthesised_names", fmt.Sprintf("grammar g\n%sstart = %s %s ;\n%s = \"b\" ;\n", helpers, name, use, name))
			mk("synthesised_names", fmt.Sprintf("grammar g\n%sstart = %s ;\n%s = \"b\" ;\nz = %s ;\n", helpers, use, name, name))
			// a second, different operand that is given the same counter-based name in another position
			mk("synthesised_names", fmt.Sprintf("grammar g\n%sstart = %s %s ;\n", helpers, use, wrap(b, `"b" "a"`)))
		}
	}
	// (ii') user rules whose names merely have the SHAPE of a synthesised name (nothing in the specification synthesises
	// them), or a part of it: they are ordinary rules, alone and accompanied under every bracket operator and every
	// pair of nested ones, with a body that cannot and one that can be empty
	var shaped []string
	for _, sfx := range suffix {
		shaped = append(shaped, "general_"+sfx, "gen_zz_"+sfx, "gen77_"+sfx, "gen_"+sfx, "zz_"+sfx, "gen_x_"+sfx+"s")
	}
	shaped = append(shaped, "gen", "genx", "gen1", "gen_x", "opt", "star_")
	for _, name := range shaped {
		for _, body := range []string{`"b"`, `"b" |`} {
			rule := fmt.Sprintf("%s = %s ;\n", name, body)
			for b1 := 0; b1 < 4; b1++ {
				mk("synthesised_shapes", fmt.Sprintf("grammar g\n%s%sstart = %s ;\n", helpers, rule, wrap(b1, name)))
				mk("synthesised_shapes", fmt.Sprintf("grammar g\n%sstart = \"a\" %s ;\n%s", helpers, wrap(b1, name), rule))
				mk("synthesised_shapes", fmt.Sprintf("grammar g\n%s%sstart = %s \"a\" %s ;\n", helpers, rule, wrap(b1, name), wrap(b1, name+` "a"`)))
				for b2 := 0; b2 < 4; b2++ {
					mk("synthesised_shapes", fmt.Sprintf("grammar g\n%s%sstart = %s ;\n", helpers, rule, wrap(b1, wrap(b2, name))))
				}
			}
		}
	}
	// (ii'') a rule one of whose alternatives is the string literal spelled like the rule itself (`null = "null" | "nil"`):
	// a terminal and a non-terminal with one spelling are different symbols
	for _, name := range []string{"null", "a", "star", "gen", "x1"} {
		lit := `"` + name + `"`
		for _, rule := range []string{
			fmt.Sprintf("%s = %s | \"b\" ;", name, lit),
			fmt.Sprintf("%s = \"b\" | %s ;", name, lit),
			fmt.Sprintf("%s = %s | %s %s ;", name, lit, name, lit),
			fmt.Sprintf("%s = %s | TK | ;", name, lit),
			fmt.Sprintf("%s = ( %s ) | [ %s \"b\" ] \"b\" ;", name, lit, lit),
		} {
			for _, use := range []string{"%s", "%s \"a\"", "[ %s ] \"a\"", "{ %s }", "%s %s", "%s | \"a\""} {
				u := strings.ReplaceAll(use, "%s", name)
				mk("literal_spelled_like_its_rule", fmt.Sprintf("grammar g\n%sstart = %s ;\n%s\n", helpers, u, rule))
				mk("literal_spelled_like_its_rule", fmt.Sprintf("grammar g\n%s%s\nstart = %s ;\n", helpers, rule, u))
			}
		}
	}
	// (ii-c) a rule with an alternative that is just the rule itself (a cycle that adds no sentence), in every position
	// among other alternatives, for start and for an ordinary rule, in one piece and in two
	for _, name := range []string{"start", "r"} {
		use := ""
		if name != "start" {
			use = "start = r \"c\" | r ;\n"
		}
		for _, alts := range [][]string{
			{name, `"a"`, `"b"`}, {`"a"`, name, `"b"`}, {`"a"`, `"b"`, name}, {`"a"`, name, `"b" ` + name}, {name, `"a" ` + name + ` "b"`, `x`},
			{`"a"`, name, ``}, {`[ "a" ]`, name, `{ "b" }`}, {`"a"`, `( ` + name + ` )`, `"b"`},
		} {
			mk("bare_self_reference", fmt.Sprintf("grammar g\n%s%s%s = %s ;\n", helpers, use, name, strings.TrimRight(strings.Join(alts, " | "), " ")))
			second := alts[2] + ` | "c"`
			if alts[2] == "" {
				second = `"c" |`
			}
			mk("bare_self_reference", fmt.Sprintf("grammar g\n%s%s%s = %s ;\n%s = %s ;\n", helpers, use, name, strings.Join(alts[:2], " | "), name, second))
		}
	}
	// (ii-d) one head written in several pieces: every sequence of two (quick) / three pieces, each an ordinary
	// declaration `e = ... ;` or a rule handle inside a directive `@left < e = ... > ;` (a rule written there is an
	// occurrence of the rule), over four alternatives alone and in pairs - the same alternative may come twice - with
	// the rule that uses e before and after them
	{
		altPool := []string{`"a"`, `"b" e`, `[ e ] TK`, `x y`}
		var bodies []string
		for i, a := range altPool {
			bodies = append(bodies, a)
			for _, b := range altPool[i+1:] {
				bodies = append(bodies, a+" | "+b)
			}
		}
		var pieces []string
		for _, b := range bodies {
			pieces = append(pieces, fmt.Sprintf("e = %s ;\n", b), fmt.Sprintf("@left < e = %s > ;\n", b))
		}
		for i, p1 := range pieces {
			for j, p2 := range pieces {
				mk("one_head_in_pieces", fmt.Sprintf("grammar g\n%sstart = e \"c\" ;\n%s%s", helpers, p1, p2))
				mk("one_head_in_pieces", fmt.Sprintf("grammar g\n%s%s%sstart = e \"c\" ;\n", helpers, p1, p2))
				if (i+j)%5 == 0 {
					for k, p3 := range pieces {
						if (i+k)%4 == 0 {
							mk("one_head_in_pieces", fmt.Sprintf("grammar g\n%s%sstart = e \"c\" ;\n%s%s", helpers, p1, p2, p3))
						}
					}
				}
			}
		}
	}
	// (ii-e) rule names whose concatenations coincide (`ab c`, `a bc`, `abc`, `a b c`): two different sub-expressions
	// under one operator whose symbols, written without separator, spell the same text - alone, twice in one rule and
	// in two rules
	{
		names := "a = \"1\" ;\nb = \"2\" ;\nc = \"3\" ;\nab = \"4\" ;\nbc = \"5\" ;\nabc = \"6\" ;\nitem = \"7\" ;\ns = \"8\" ;\nitems = \"9\" ;\n"
		for _, pair := range [][2]string{{"ab c", "a bc"}, {"abc", "ab c"}, {"abc", "a bc"}, {"a b c", "abc"}, {"a b", "ab"}, {"items", "item s"}, {"a b c", "ab c"}, {"ab | c", "a | bc"}} {
			for b := 0; b < 4; b++ {
				mk("names_that_concatenate_alike", fmt.Sprintf("grammar g\n%sstart = %s \"x\" %s ;\n", names, wrap(b, pair[0]), wrap(b, pair[1])))
				mk("names_that_concatenate_alike", fmt.Sprintf("grammar g\n%sstart = %s \"x\" %s ;\n", names, wrap(b, pair[1]), wrap(b, pair[0])))
				mk("names_that_concatenate_alike", fmt.Sprintf("grammar g\n%sstart = %s z ;\nz = %s ;\n", names, wrap(b, pair[0]), wrap(b, pair[1])))
			}
		}
	}
	// (iii) single-character string terminals against non-terminals of the same spelled name
	for ch, nm := range terminalNames {
		for b := 0; b < 4; b++ {
			mk("punctuation_names", fmt.Sprintf("grammar g\n%s = \"a\" ;\nstart = %s %s ;\n", nm, wrap(b, `"`+ch+`"`), wrap(b, nm)))
			mk("punctuation_names", fmt.Sprintf("grammar g\n%s = \"a\" ;\nstart = %s %s ;\n", nm, wrap(b, nm), wrap(b, `"`+ch+`"`)))
		}
	}
}

// scaling: constructs that are long, wide, deep or numerous - beyond the node bound of the complete enumeration, in
// shapes whose languages stay small: concatenations of m symbols (bare and inside every bracket), alternations of m
// distinct alternatives (bare and inside every bracket), m levels of nested brackets (one kind, and the four kinds in
// rotation, with and without a sibling at every level), m different bracket groups in one rule and over m rules, and
// one group written m times. Sentences are compared up to the length each shape needs.
func scaling(runN func(sp *ebnfref.Spec, family string, n int), quick bool) {
	mk := func(family, text string, n int) {
		sp, err := ebnfref.ParseSpec(text)
		if err != nil {
			ev.Fatal("family %s: reference cannot read %q: %v", family, text, err)
		}
		runN(sp, family, n)
	}
	const head = "grammar g\nTK = \"t\"\n"
	var sizes []int
	if quick {
		for m := 1; m <= 12; m++ {
			sizes = append(sizes, m)
		}
		sizes = append(sizes, 15, 16, 17, 31, 32, 33)
	} else {
		for m := 1; m <= 70; m++ {
			sizes = append(sizes, m)
		}
		sizes = append(sizes, 127, 128, 129)
	}
	cyc := []string{`"a"`, `"b"`, `TK`}
	// code(i): a sentence that is different for every i (binary digits of i, lowest first, as "a" / "b")
	code := func(i int) (string, int) {
		var parts []string
		for v := i; v > 0; v >>= 1 {
			parts = append(parts, cyc[v&1])
		}
		return strings.Join(parts, " "), len(parts)
	}
	for _, m := range sizes {
		var syms []string
		for i := 0; i < m; i++ {
			syms = append(syms, cyc[i%3])
		}
		long := strings.Join(syms, " ")
		mk("scaling_long_concatenation", fmt.Sprintf("%sstart = %s ;\n", head, long), m)
		var alts []string
		width := 0
		for i := 1; i <= m; i++ {
			c, l := code(i)
			alts = append(alts, c)
			width = l
		}
		wide := strings.Join(alts, " | ")
		mk("scaling_wide_alternation", fmt.Sprintf("%sstart = %s ;\n", head, wide), width)
		mk("scaling_wide_alternation", fmt.Sprintf("%sstart = %s | ;\n", head, wide), width)
		for b := 0; b < 4; b++ {
			rep := 1
			if b >= 2 {
				rep = 2
			}
			if m <= 40 {
				mk("scaling_long_concatenation", fmt.Sprintf("%sstart = %s ;\n", head, wrap(b, long)), rep*m)
				mk("scaling_long_concatenation", fmt.Sprintf("%sstart = \"b\" %s \"a\" ;\n", head, wrap(b, long)), rep*m+2)
			}
			wn := width
			if b >= 2 && wn < 4 {
				wn = 4
			}
			if b >= 2 && wn > 5 {
				wn = 5
			}
			mk("scaling_wide_alternation", fmt.Sprintf("%sstart = %s ;\n", head, wrap(b, wide)), wn)
			mk("scaling_wide_alternation", fmt.Sprintf("%sstart = \"b\" %s | \"a\" ;\n", head, wrap(b, wide+" |")), wn+1)
			// m levels of one kind of bracket
			if m <= 40 {
				inner, sib := `"a"`, `"b" "a"`
				for l := 0; l < m; l++ {
					inner = wrap(b, inner)
					if l > 0 {
						sib = `"b" ` + wrap(b, sib)
					}
				}
				mk("scaling_deep_nesting", fmt.Sprintf("%sstart = %s ;\n", head, inner), 4)
				if b < 2 {
					mk("scaling_deep_nesting", fmt.Sprintf("%sstart = %s ;\n", head, sib), m+1)
				} else if m <= 4 {
					mk("scaling_deep_nesting", fmt.Sprintf("%sstart = %s ;\n", head, sib), 6)
				}
				// the four kinds in rotation, starting with kind b
				rot := `"a" TK`
				for l := 0; l < m; l++ {
					rot = wrap((b+l)%4, rot)
				}
				mk("scaling_deep_nesting", fmt.Sprintf("%sstart = %s \"b\" ;\n", head, rot), 5)
			}
			// two groups of one kind that differ in a single one of their m alternatives (every position for small
			// m, the first, middle and last positions otherwise), or by one alternative more at either end
			if m >= 2 {
				var pos []int
				if m <= 12 {
					for j := 0; j < m; j++ {
						pos = append(pos, j)
					}
				} else {
					pos = []int{0, 1, 4, 5, 6, 7, 8, m / 2, m - 2, m - 1}
				}
				ln := width + 2
				if b >= 2 && ln > 6 {
					ln = 6
				}
				var seconds []string
				for _, j := range pos {
					alt2 := append([]string{}, alts...)
					alt2[j] = "TK TK"
					seconds = append(seconds, strings.Join(alt2, " | "))
				}
				seconds = append(seconds, wide+" | TK TK", "TK TK | "+wide)
				for k, second := range seconds {
					if k%2 == 0 {
						mk("scaling_wide_look_alikes", fmt.Sprintf("%sstart = %s \"a\" | %s \"b\" ;\n", head, wrap(b, wide), wrap(b, second)), ln)
					} else {
						mk("scaling_wide_look_alikes", fmt.Sprintf("%sstart = z \"a\" | %s \"b\" ;\nz = %s ;\n", head, wrap(b, second), wrap(b, wide)), ln)
					}
				}
			}
			// m different groups of one kind in one rule, and one per rule over m rules; one group written m times
			var many, rules, names, same []string
			for i := 1; i <= m; i++ {
				c, _ := code(i)
				many = append(many, fmt.Sprintf("%s %s", wrap(b, `"b" `+c), c))
				rules = append(rules, fmt.Sprintf("r%d = %s %s ;\n", i, wrap(b, `"b" `+c), c))
				names = append(names, fmt.Sprintf("r%d", i))
				same = append(same, fmt.Sprintf("%s %s", wrap(b, `"b" TK`), c))
			}
			gn := width + 3
			if b >= 2 {
				gn = width + 1 + 2*(width+1)
				if gn > 9 {
					gn = 9
				}
			}
			mk("scaling_many_groups", fmt.Sprintf("%sstart = %s ;\n", head, strings.Join(many, " | ")), gn)
			mk("scaling_many_groups", fmt.Sprintf("%sstart = %s ;\n%s", head, strings.Join(names, " | "), strings.Join(rules, "")), gn)
			mk("scaling_one_group_many_times", fmt.Sprintf("%sstart = %s ;\n", head, strings.Join(same, " | ")), width+4)
		}
	}
}
