package main

import (
	"fmt"
	"os"

	"github.com/gardenbed/emerge/internal/ebnf/parser/spec"
)

func main() {
	s := &spec.Spec{Definitions: []*spec.TerminalDef{{Terminal: "TK", Value: os.Args[1], IsRegex: true}}}
	d, _, err := s.DFA()
	fmt.Println(err, d != nil)
}
