// C12: the recorded precedence levels are exactly the directives, in order, with their handles.
package main

import (
	"fmt"
	"sort"
	"strings"

	"github.com/moorara/algo/grammar"
	"github.com/moorara/algo/parser/lr"

	"github.com/gardenbed/emerge/verif/ev"
	"github.com/gardenbed/emerge/verif/impl"
	"github.com/gardenbed/emerge/verif/ref/cfgref"
	"github.com/gardenbed/emerge/verif/ref/ebnfref"
)

var handlePool = []string{`"+"`, `"*"`, `TK`, `< e = e e >`, `< e = e ( a | b ) e >`, `< e = a | b >`, `< e = [ a ] e | >`, `< f = { a } >`, `< f = >`, `< e = "-" e >`, `< f = a TK | "/" >`, `< e = a >`, `< e = a | a | b | >`}

const prelude = "TK = \"t\" ;\nstart = e f ;\ne = \"x\" ;\nf = \"y\" ;\na = \"p\" ;\nb = \"q\" ;\n"

var assocs = []string{"@left", "@right", "@none"}

type directive struct {
	assoc   string
	handles []int
}

func (d directive) text() string {
	parts := []string{d.assoc}
	for _, h := range d.handles {
		parts = append(parts, handlePool[h])
	}
	return strings.Join(parts, " ")
}

// build interleaves the directives with the prelude declarations: pos[i] = number of prelude lines before directive i.
func build(ds []directive, pos []int, semi bool) string {
	lines := strings.Split(strings.TrimSpace(prelude), "\n")
	var b strings.Builder
	b.WriteString("grammar g ;\n")
	li := 0
	for i, d := range ds {
		for li < pos[i] && li < len(lines) {
			b.WriteString(lines[li] + "\n")
			li++
		}
		b.WriteString(d.text())
		if semi {
			b.WriteString(" ;")
		}
		b.WriteString("\n")
	}
	for ; li < len(lines); li++ {
		b.WriteString(lines[li] + "\n")
	}
	return b.String()
}

// lenient: a rejection is counted, not judged (families whose well-formedness the documentation does not settle).
var lenient bool

func checkText(r *ev.Run, text string) {
	in := map[string]any{"Text": text}
	sp, err := ebnfref.ParseSpec(text)
	if err != nil {
		r.Add("texts_not_read_as_intended_skipped", 1)
		return
	}
	var want []*ebnfref.Directive
	for _, d := range sp.Decls {
		if v, ok := d.(*ebnfref.Directive); ok {
			want = append(want, v)
		}
	}
	res := impl.Parse("f.g", text)
	r.Add("specs", 1)
	if res.Panic != "" {
		r.Add("panics_left_to_C14", 1)
		return
	}
	// a handle written in two directives makes the specification ill-formed (emerge rejects it; that side is C07's):
	// such a text must be rejected, or recorded exactly as written
	repeated := false
	seenHandle := map[string]int{}
	for i, w := range want {
		for _, h := range w.Handles {
			// a rule handle stands for one production per top-level alternative: two rule handles overlap when they
			// share an alternative (`< e = a | b >` and `< e = a >`)
			var keys []string
			if h.Rule != nil {
				alts := []ebnfref.Expr{h.Rule.RHS}
				if a, ok := h.Rule.RHS.(*ebnfref.Alt); ok {
					alts = a.Ops
					if a.TrailingEmpty {
						alts = append(append([]ebnfref.Expr{}, alts...), nil)
					}
				}
				for _, a := range alts {
					k := "<" + h.Rule.LHS + "=>"
					if a != nil {
						k = "<" + h.Rule.LHS + "=" + ebnfref.ExprString(a) + ">"
					}
					keys = append(keys, k)
				}
			} else {
				keys = []string{ebnfref.TermName(h.Term)}
			}
			for _, key := range keys {
				if j, ok := seenHandle[key]; ok && j != i {
					repeated = true
				}
				seenHandle[key] = i
			}
		}
	}
	if !res.OK() {
		if repeated {
			r.Add("specs_with_a_handle_in_two_levels_rejected", 1)
			return
		}
		if lenient {
			r.Add("specs_rejected_not_judged", 1)
			return
		}
		r.Report("", fmt.Sprintf("a well-formed specification is rejected: %s\n%s", res.Err, text), in)
		return
	}
	if repeated {
		r.Add("specs_with_a_handle_in_two_levels_accepted", 1)
	}
	r.Distinct(text)
	if d := ownProductions(sp, res); d != "" {
		r.Report("", d+"\n"+text, in)
	}
	got := res.Spec.Precedences
	if len(got) != len(want) {
		r.Report("", fmt.Sprintf("%d precedence levels recorded for %d directives\n%s", len(got), len(want), text), in)
		return
	}
	const n = 4
	refEnv := sp.Languages(n)
	implEnv := cfgref.Languages(res.Spec.Grammar, n)
	prodSet := map[string]bool{}
	for p := range res.Spec.Grammar.Productions.All() {
		prodSet[p.String()] = true
	}
	for i, w := range want {
		lv := got[i]
		wantAssoc := map[string]lr.Associativity{"@left": lr.LEFT, "@right": lr.RIGHT, "@none": lr.NONE}[w.Assoc]
		if lv.Associativity != wantAssoc {
			r.Report("", fmt.Sprintf("level %d has associativity %s, directive %d says %s\n%s", i, lv.Associativity, i, w.Assoc, text), in)
			return
		}
		var gotTerms []string
		gotProds := map[string][]*grammar.Production{}
		for h := range lv.Handles.All() {
			switch {
			case h.IsTerminal():
				gotTerms = append(gotTerms, string(*h.Terminal))
			case h.IsProduction():
				gotProds[string(h.Production.Head)] = append(gotProds[string(h.Production.Head)], h.Production)
			default:
				r.Report("", fmt.Sprintf("level %d contains a handle that is neither a terminal nor a production\n%s", i, text), in)
				return
			}
		}
		var wantTerms []string
		wantRules := map[string][]*ebnfref.Rule{}
		for _, h := range w.Handles {
			if h.Rule != nil {
				wantRules[h.Rule.LHS] = append(wantRules[h.Rule.LHS], h.Rule)
			} else {
				wantTerms = append(wantTerms, ebnfref.TermName(h.Term))
			}
		}
		sort.Strings(gotTerms)
		sort.Strings(wantTerms)
		wantTerms = dedupe(wantTerms) // a terminal written twice in one directive is one handle
		if strings.Join(gotTerms, "\x00") != strings.Join(wantTerms, "\x00") {
			r.Report("", fmt.Sprintf("level %d has terminal handles %q, directive %d lists %q\n%s", i, gotTerms, i, wantTerms, text), in)
			return
		}
		for head := range gotProds {
			if len(wantRules[head]) == 0 {
				r.Report("", fmt.Sprintf("level %d has a production handle with head %s, directive %d lists no rule %s\n%s", i, head, i, head, text), in)
				return
			}
		}
		for head, rules := range wantRules {
			ps := gotProds[head]
			alts := 0
			wantLang := ebnfref.Lang{}
			for _, rl := range rules {
				if a, ok := rl.RHS.(*ebnfref.Alt); ok {
					alts += len(a.Ops)
					if a.TrailingEmpty {
						alts++
					}
				} else {
					alts++
				}
				for s := range ebnfref.Eval(rl.RHS, refEnv, n) {
					wantLang[s] = struct{}{}
				}
			}
			// equal alternatives (of one rule handle or of two rule handles in the level) are one production
			distinct := map[string]bool{}
			for _, rl := range rules {
				if a, ok := rl.RHS.(*ebnfref.Alt); ok {
					for _, o := range a.Ops {
						distinct[ebnfref.ExprString(o)] = true
					}
					if a.TrailingEmpty {
						distinct[""] = true
					}
				} else if rl.RHS == nil {
					distinct[""] = true
				} else {
					distinct[ebnfref.ExprString(rl.RHS)] = true
				}
			}
			if len(ps) != len(distinct) {
				r.Report("", fmt.Sprintf("level %d has %d production handles for %s, the rule handles have %d distinct top-level alternatives (%d written)\n%s", i, len(ps), head, len(distinct), alts, text), in)
				return
			}
			gotLang := ebnfref.Lang{}
			for _, p := range ps {
				if !prodSet[p.String()] {
					r.Report("", fmt.Sprintf("level %d: production handle %s is not one of the grammar's productions\n%s", i, p, text), in)
					return
				}
				cur := ebnfref.Lang{"": {}}
				for _, s := range p.Body {
					next := ebnfref.Lang{}
					var sl ebnfref.Lang
					if t, ok := s.(grammar.Terminal); ok {
						sl = ebnfref.Lang{ebnfref.Sym(string(t)): {}}
					} else {
						sl = implEnv[s.Name()]
					}
					for x := range cur {
						for y := range sl {
							if ebnfref.Len(x)+ebnfref.Len(y) <= n {
								next[x+y] = struct{}{}
							}
						}
					}
					cur = next
				}
				for x := range cur {
					gotLang[x] = struct{}{}
				}
			}
			if eq, wit, inWant := ebnfref.Equal(wantLang, gotLang); !eq {
				r.Report("", fmt.Sprintf("level %d: the production handles for %s do not spell the written right-hand side: sentence [%s] (in the written rule: %v)\n%s", i, head, ebnfref.Show(wit), inWant, text), in)
				return
			}
		}
	}
}

// canon prints an expression with the operands of every alternation sorted (at every depth): two bracket bodies that
// list the same alternatives in another order are the same body.
func canon(e ebnfref.Expr) string {
	switch v := e.(type) {
	case *ebnfref.Alt:
		var parts []string
		for _, o := range v.Ops {
			parts = append(parts, canon(o))
		}
		if v.TrailingEmpty {
			parts = append(parts, "")
		}
		sort.Strings(parts)
		return strings.Join(dedupe(parts), " | ")
	case *ebnfref.Cat:
		var parts []string
		for _, o := range v.Ops {
			parts = append(parts, canon(o))
		}
		return strings.Join(parts, " ")
	case *ebnfref.Group:
		return "( " + canon(v.X) + " )"
	case *ebnfref.Opt:
		return "[ " + canon(v.X) + " ]"
	case *ebnfref.Star:
		return "{ " + canon(v.X) + " }"
	case *ebnfref.Plus:
		return "{{ " + canon(v.X) + " }}"
	case nil:
		return ""
	}
	return ebnfref.ExprString(e)
}

func topAlternatives(rhs ebnfref.Expr) []string {
	if rhs == nil {
		return []string{""}
	}
	if a, ok := rhs.(*ebnfref.Alt); ok {
		var out []string
		for _, o := range a.Ops {
			out = append(out, canon(o))
		}
		if a.TrailingEmpty {
			out = append(out, "")
		}
		return out
	}
	return []string{canon(rhs)}
}

// ownProductions: "each such production is one of the grammar's own productions". When every alternative of every rule
// handle is an alternative the rules of the specification write for that head (bracket bodies compared as sets of
// alternatives), the directives add nothing: the grammar must have as many non-terminals and productions as the grammar
// of the same specification without its directives (numbers, because synthesised names are numbered in order of
// appearance and a directive may come first).
func ownProductions(sp *ebnfref.Spec, res *impl.Result) string {
	written := map[string]bool{}
	var rest []ebnfref.Decl
	handles := 0
	for _, d := range sp.Decls {
		if r, ok := d.(*ebnfref.Rule); ok {
			for _, a := range topAlternatives(r.RHS) {
				written[r.LHS+" = "+a] = true
			}
		}
		if _, ok := d.(*ebnfref.Directive); !ok {
			rest = append(rest, d)
		}
	}
	for _, d := range sp.Decls {
		if v, ok := d.(*ebnfref.Directive); ok {
			for _, h := range v.Handles {
				if h.Rule == nil {
					continue
				}
				handles++
				for _, a := range topAlternatives(h.Rule.RHS) {
					if !written[h.Rule.LHS+" = "+a] {
						return ""
					}
				}
			}
		}
	}
	if handles == 0 {
		return ""
	}
	bare := impl.Parse("f.g", (&ebnfref.Spec{Name: sp.Name, NameSemi: sp.NameSemi, Decls: rest}).Text())
	if !bare.OK() {
		return ""
	}
	if len(bare.Prods) != len(res.Prods) || len(bare.NonTerms) != len(res.NonTerms) {
		return fmt.Sprintf("the rule handles only repeat alternatives the rules write, yet the grammar has %d non-terminals and %d productions with the directives and %d and %d without them: a handle's production is not one of the grammar's own\nwith: %v\nwithout: %v",
			len(res.NonTerms), len(res.Prods), len(bare.NonTerms), len(bare.Prods), res.Prods, bare.Prods)
	}
	return ""
}

func dedupe(xs []string) []string {
	var out []string
	for i, x := range xs {
		if i == 0 || x != xs[i-1] {
			out = append(out, x)
		}
	}
	return out
}

func main() {
	r := ev.Start("C12", "exploration")
	if r.Replay != "" {
		var in struct{ Text string }
		if err := r.LoadReplay(&in); err != nil {
			ev.Fatal("%v", err)
		}
		checkText(r, in.Text)
		r.Finish()
	}
	if r.Fork(16) {
		r.Set("rule", fmt.Sprintf("every list of up to 3 directives with pairwise disjoint handle lists, and lists that repeat a handle within a directive or across directives (these must be rejected or recorded as written) (1-2 handles each, drawn in every order from %d handles: string and named terminals, rule handles with alternation, groups, optional, star, trailing and empty alternatives), every assignment of @left/@right/@none, interleaved with the other declarations at every position (complete for <= 2 directives), with and without the optional semicolons; lists of 4 ... 100 directives in five arrangements; non-trivial = accepted specification; distinct by text", len(handlePool)))
		r.Set("evaluations", r.Get("specs"))
		r.Finish()
	}
	r.Set("exhaustive", true)
	nlines := len(strings.Split(strings.TrimSpace(prelude), "\n"))
	count := 0
	few := false // true: two placements only
	emit := func(ds []directive) {
		// interleavings
		var positions [][]int
		switch len(ds) {
		case 1:
			for p := 0; p <= nlines; p++ {
				positions = append(positions, []int{p})
			}
		case 2:
			for p := 0; p <= nlines; p++ {
				for q := p; q <= nlines; q++ {
					positions = append(positions, []int{p, q})
				}
			}
		default:
			positions = [][]int{{0, 0, 0}, {0, 2, nlines}, {nlines, nlines, nlines}, {1, 1, 3}}
		}
		if len(ds) == 2 && len(ds[0].handles)+len(ds[1].handles) > 2 {
			// complete interleaving only for single-handle levels; five representative placements otherwise
			positions = [][]int{{0, 0}, {0, nlines}, {2, 2}, {1, 4}, {nlines, nlines}}
		}
		if few {
			positions = [][]int{make([]int, len(ds)), []int{1, 4, nlines}[:len(ds)]}
		}
		for _, pos := range positions {
			for _, semi := range []bool{true, false} {
				count++
				if !r.MineIdx(count) {
					continue
				}
				if r.Expired() {
					r.Set("exhaustive", false)
					return
				}
				text := build(ds, pos, semi)
				checkText(r, text)
				if count%2003 == 0 {
					r.Sample(text)
				}
			}
		}
	}
	// handle lists of size 1 and 2 in every order
	var lists [][]int
	for i := range handlePool {
		lists = append(lists, []int{i})
	}
	for i := range handlePool {
		for j := range handlePool {
			if i != j {
				lists = append(lists, []int{i, j})
			}
		}
	}
	disjoint := func(a, b []int) bool {
		for _, x := range a {
			for _, y := range b {
				if x == y {
					return false
				}
			}
		}
		return true
	}
	for _, l1 := range lists {
		for _, a1 := range assocs {
			emit([]directive{{a1, l1}})
		}
	}
	for i1, l1 := range lists {
		for i2, l2 := range lists {
			if !disjoint(l1, l2) {
				continue
			}
			// two-handle levels on both sides only in thorough; quick thins pairs with a two-handle level
			if r.Quick() && (len(l1)+len(l2) > 3 || (len(l1)+len(l2) == 3 && (i1+i2)%4 != 0)) {
				continue
			}
			if !r.Quick() && len(l1)+len(l2) == 4 && (i1+i2)%6 != 0 {
				continue
			}
			for _, a1 := range assocs {
				for _, a2 := range assocs {
					emit([]directive{{a1, l1}, {a2, l2}})
				}
			}
		}
	}
	few = true
	// directives that repeat a handle: within one directive, across two (identical lists, permuted lists, partial
	// overlap), and a third directive repeating the first - must be rejected or recorded exactly as written
	for _, l1 := range lists {
		for _, l2 := range lists {
			if disjoint(l1, l2) || (r.Quick() && len(l1)+len(l2) == 4 && (l1[0]+l2[1])%3 != 0) {
				continue
			}
			for _, a1 := range assocs {
				for _, a2 := range assocs {
					emit([]directive{{a1, l1}, {a2, l2}})
				}
			}
		}
	}
	for i := range handlePool {
		for _, a1 := range assocs {
			emit([]directive{{a1, []int{i, i}}})
			for j := range handlePool {
				if i != j {
					emit([]directive{{a1, []int{i, j, i}}})
					for _, a2 := range assocs {
						emit([]directive{{a1, []int{i}}, {a2, []int{j}}, {a1, []int{i}}})
						emit([]directive{{a1, []int{i, j}}, {a2, []int{(j + 1) % len(handlePool)}}, {a1, []int{j, i}}})
					}
				}
			}
		}
	}
	few = false
	for i := range handlePool {
		for j := range handlePool {
			for k := range handlePool {
				if i == j || j == k || i == k {
					continue
				}
				if r.Quick() && (i+j+k)%5 != 0 {
					continue
				}
				for ai, a1 := range assocs {
					for aj, a2 := range assocs {
						a3 := assocs[(ai+aj+1)%3]
						emit([]directive{{a1, []int{i}}, {a2, []int{j}}, {a3, []int{k}}})
					}
				}
			}
		}
	}
	// rule handles that repeat what a rule writes, with the alternatives inside the brackets (and at the top) in every
	// other order: nested brackets of two and three levels, a bracket body an earlier rule used too; the directive
	// before the rules, after them and between them
	{
		perms := func(xs []string) [][]string {
			var out [][]string
			var rec func(cur []string, left []string)
			rec = func(cur, left []string) {
				if len(left) == 0 {
					out = append(out, append([]string{}, cur...))
					return
				}
				for i := range left {
					rest := append(append([]string{}, left[:i]...), left[i+1:]...)
					rec(append(cur, left[i]), rest)
				}
			}
			rec(nil, xs)
			return out
		}
		alt := func(xs []string) []string {
			var out []string
			for _, p := range perms(xs) {
				out = append(out, strings.Join(p, " | "))
			}
			return out
		}
		var shapes [][]string // shapes[k] = the variants of one right-hand side; variant 0 is what the rule writes
		add := func(format string, groups ...[]string) {
			variants := []string{""}
			for _, g := range groups {
				var next []string
				for _, v := range variants {
					for _, a := range g {
						next = append(next, v+"\x00"+a)
					}
				}
				variants = next
			}
			var texts []string
			for _, v := range variants {
				args := strings.Split(v, "\x00")[1:]
				t := format
				for _, a := range args {
					t = strings.Replace(t, "%s", a, 1)
				}
				texts = append(texts, t)
			}
			shapes = append(shapes, texts)
		}
		add(`e ( %s ) e`, alt([]string{"a", "b"}))
		add(`e ( %s ) e`, alt([]string{"a", "b", "TK"}))
		add(`a { [ %s ] a }`, alt([]string{`","`, `";"`}))
		add(`[ %s ] e`, alt([]string{"a", "b"}))
		add(`{{ %s }} b`, alt([]string{"a", "b e"}))
		add(`e ( %s ) e`, []string{"a | ( b | TK )", "( b | TK ) | a", "a | ( TK | b )", "( TK | b ) | a"})
		add(`{ ( %s ) [ %s ] }`, alt([]string{"a", "b"}), alt([]string{"b", "a"}))
		add(`a { [ ( %s ) b ] a }`, alt([]string{`"+"`, `"-"`}))
		add(`%s`, alt([]string{"a e", "b", `"-" e`}))
		for _, variants := range shapes {
			for vi, v := range variants {
				rules := fmt.Sprintf("start = e ;\ne = %s | \"x\" ;\na = \"p\" ;\nb = \"q\" ;\n", variants[0])
				other := fmt.Sprintf("f = %s ;\n", variants[len(variants)-1])
				for ai, as := range assocs {
					if (vi+ai)%3 != 0 && r.Quick() {
						continue
					}
					dir := fmt.Sprintf("%s < e = %s > ;\n", as, v)
					for _, text := range []string{
						"grammar g ;\nTK = \"t\" ;\n" + rules + dir,
						"grammar g ;\nTK = \"t\" ;\n" + dir + rules,
						"grammar g ;\nTK = \"t\" ;\n" + other + dir + rules + "s2 = f ;\n",
						"grammar g ;\nTK = \"t\" ;\n" + rules + other + dir + "s2 = f ;\n",
					} {
						count++
						if r.MineIdx(count) && !r.Expired() {
							r.Add("specs_handles_repeating_rules", 1)
							checkText(r, text)
						}
					}
				}
			}
		}
	}
	// strings that denote the value of a named token, written differently (`PLUS = "\+"` next to the handle `"+"`),
	// token names and such strings side by side: the terminal recorded for a handle is the one that was written. Every
	// list of one and two handles, the directive before and after the declarations. (Whether two terminals may denote
	// one text is C07's question: a rejection is not judged here.)
	{
		hp := []string{`"+"`, `"*"`, "PLUS", "TIMES", "TK", `"-"`}
		decls := "PLUS = \"\\+\" ;\nTIMES = \"\\*\" ;\nTK = \"t\" ;\n"
		rules := "start = e ;\ne = e PLUS e | e TIMES e | e \"+\" e | e \"*\" e | e \"-\" e | TK ;\n"
		lenient = true
		for i, h1 := range hp {
			for j := -1; j < len(hp); j++ {
				if j == i {
					continue
				}
				hs := h1
				if j >= 0 {
					hs += " " + hp[j]
				}
				for ai, as := range assocs {
					if r.Quick() && (i+j+ai)%2 != 0 {
						continue
					}
					dir := as + " " + hs + " ;\n"
					for _, text := range []string{"grammar g ;\n" + decls + dir + rules, "grammar g ;\n" + dir + decls + rules, "grammar g ;\n" + decls + rules + dir} {
						count++
						if r.MineIdx(count) && !r.Expired() {
							r.Add("specs_strings_denoting_token_values", 1)
							checkText(r, text)
						}
					}
				}
			}
		}
		lenient = false
	}
	// long directive lists: n levels (one string terminal each, a rule handle every fifth), associativities cycling, in the
	// five arrangements: all first, all last, alternating with the other declarations, two per line, without semicolons
	lines := strings.Split(strings.TrimSpace(prelude), "\n")
	for _, nd := range []int{4, 5, 8, 10, 16, 17, 32, 33, 64, 65, 100} {
		var ds []string
		for i := 0; i < nd; i++ {
			h := fmt.Sprintf(`"t%d"`, i)
			if i%5 == 4 {
				h = fmt.Sprintf(`< e = "u%d" e >`, i)
			}
			ds = append(ds, assocs[i%3]+" "+h)
		}
		for arr := 0; arr < 5; arr++ {
			count++
			if !r.MineIdx(count) || r.Expired() {
				continue
			}
			var b strings.Builder
			b.WriteString("grammar g ;\n")
			switch arr {
			case 0:
				b.WriteString(strings.Join(ds, " ;\n") + " ;\n" + prelude)
			case 1:
				b.WriteString(prelude + strings.Join(ds, " ;\n") + " ;\n")
			case 2:
				for i, d := range ds {
					b.WriteString(d + " ;\n" + lines[i%len(lines)] + "\n")
				}
				for _, l := range lines[min(len(ds), len(lines)):] {
					b.WriteString(l + "\n")
				}
			case 3:
				for i := 0; i < len(ds); i += 2 {
					b.WriteString(ds[i] + " ; ")
					if i+1 < len(ds) {
						b.WriteString(ds[i+1] + " ;")
					}
					b.WriteString("\n")
				}
				b.WriteString(prelude)
			case 4:
				b.WriteString(strings.Join(ds, "\n") + "\n" + prelude)
			}
			text := b.String()
			if arr == 2 && nd > len(lines) {
				// the prelude lines must not repeat: alternate only as long as they last
				var c strings.Builder
				c.WriteString("grammar g ;\n")
				for i, d := range ds {
					c.WriteString(d + " ;\n")
					if i < len(lines) {
						c.WriteString(lines[i] + "\n")
					}
				}
				text = c.String()
			}
			checkText(r, text)
			r.Add("specs_long_directive_lists", 1)
		}
	}
	r.Assume("a rule written as a handle is an occurrence of that rule (its alternatives are productions of the grammar); bounded languages compared up to length 4")
	r.Finish()
}
