#!/bin/bash
# Builds the C15 binary from instrumented sources: /repo via -overlay, the dependency via a hooked copy and -modfile.
# $1 = output binary. The scratch directory is fixed (identical content => build cache hits) and private to this check.
set -eu
here="$(cd "$(dirname "$0")/../.." && pwd)"
out="$1"
work=/tmp/verif-c15-instr
rm -rf "$work"
mkdir -p "$work"
(cd "$here/../instr" && go build -o "$here/../.bin/instr" .)
"$here/../.bin/instr" -out "$work" -dep >&2
cd "$here"
sed "s#^replace github.com/gardenbed/emerge => /repo#replace github.com/gardenbed/emerge => /repo\n\nreplace github.com/moorara/algo => $work/algo#" go.mod > go.hooked.mod
cp go.sum go.hooked.sum
go build -tags verif -modfile=go.hooked.mod -overlay "$work/overlay.json" -o "$out" ./cmd/c15
