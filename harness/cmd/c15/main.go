// C15: the same specification and options give byte-identical output and diagnostics, independent of hash-map
// iteration order and of the dependency's shuffles. This binary is built from instrumented sources (see build.sh):
// every range over a Go map in /repo and in the dependency asks rt for its order, every shuffle of the dependency
// asks rt for its permutation. The explorer enumerates all executions with a bounded number of non-default answers.
package main

import (
	"crypto/sha256"
	"fmt"
	"os"
	"os/exec"
	"path/filepath"
	"sort"
	"strconv"
	"strings"

	"github.com/gardenbed/charm/ui"

	"github.com/gardenbed/emerge/internal/ebnf/parser/spec"
	"github.com/gardenbed/emerge/internal/generate/golang"
	"github.com/gardenbed/emerge/verif/ev"
	"github.com/gardenbed/emerge/verif/ref/ebnfref"
	"github.com/gardenbed/emerge/verif/rt"
)

var scenarios = []struct{ name, text string }{
	{"keyword-and-identifier", "grammar kw ;\nID = /[a-z]+/ ;\nNUM = /[0-9]+/ ;\nstart = \"if\" ID \"then\" NUM \"in\" ID ;\n"},
	{"two-definition-conflicts", "grammar cf ;\nAA = /[a-c]+/ ;\nBB = /[a-z]+/ ;\nCC = /[0-4]+/ ;\nDD = /[0-9]+/ ;\nstart = AA BB CC DD ;\n"},
	{"two-duplicate-values", "grammar dv ;\nAA = \"x\" ;\nBB = \"x\" ;\nCC = \"y\" ;\nDD = \"y\" ;\nstart = AA BB CC DD ;\n"},
	{"undefined-and-multiple", "grammar um ;\nAA = \"x\" ;\nAA = \"z\" ;\nBB = \"u\" ;\nBB = \"v\" ;\nstart = AA BB UU VV ;\n"},
	{"mixed-kinds-multiple", "grammar mk ;\nIF = \"if\" ;\nID = /[a-z]+/ ;\nIF = \"fi\" ;\nID = /[a-z]*/ ;\nNN = $NUMBER ;\nNN = /[0-9]/ ;\nstart = IF ID NN ;\n"},
	{"mixed-kinds-same-value", "grammar ms ;\nstart = AA BB \"x\" CC DD \"y\" ;\nAA = \"x\" ;\nCC = /y/ ;\nDD = \"y\" ;\nBB = \"q\" ;\n@left AA ;\n@right AA BB ;\n"},
	{"uses-before-definitions", "grammar ub ;\n@left \"+\" PLUS ;\nstart = e ;\ne = e \"+\" e | e PLUS e | UU | VV | WW ;\nPLUS = \"plus\" ;\n"},
	{"shadowed-token", "grammar sh ;\nBOOL = /true|false/ ;\nNIL = /nil/ ;\nID = /[a-z]+/ ;\nstart = \"true\" \"false\" \"nil\" BOOL NIL ID \"if\" ;\n"},
	{"shadowed-token-statements", "grammar shadow ;\nBOOL = /true|false/ ;\nID = /[a-z]+/ ;\nNUM = /[0-9]+/ ;\nstart = { stmt } ;\nstmt = ID \"=\" val \";\" ;\nval = \"true\" | \"false\" | BOOL | ID | NUM | \"(\" val \")\" ;\n"},
	{"lalr-conflicts", "grammar lc ;\nstart = e ;\ne = e \"+\" e | e \"*\" e | \"i\" ;\n"},
	// terminals that tie under any weakened ordering key: same length, same letters in another case or order
	{"look-alike-terminals", "grammar la ;\nIF = \"when\" ;\nID = /[a-z]+/ ;\nDI = /[A-Z]+/ ;\nstart = \"x\" \"X\" \"if\" IF \"ab\" \"ba\" \"Ab\" ID DI \"fi\" ;\n"},
	// two or more problems of every kind the grammar-level and precedence-level checks report
	{"rules-without-productions", "grammar np ;\nstart = a b c \"x\" ;\nd = b c ;\n"},
	{"handles-in-two-levels", "grammar hl ;\n@left \"+\" \"-\" \"/\" ;\n@right \"+\" \"-\" \"/\" \"*\" ;\n@none \"-\" \"*\" <e = e e> ;\n@left <e = e e> ;\nstart = e ;\ne = e \"+\" e | e \"-\" e | e \"*\" e | e e | \"i\" ;\n"},
	// the same problem reported several times next to different ones: one handle in three and four levels (every pair of
	// levels reports it), a token defined three times, three tokens with one value, an undefined token used in three rules
	{"one-handle-in-four-levels", "grammar hf ;\n@left \"+\" \"-\" ;\n@right \"+\" ;\n@none \"+\" \"-\" ;\n@left \"+\" <e = e e> ;\n@right <e = e e> ;\n@none <e = e e> ;\nstart = e ;\ne = e \"+\" e | e \"-\" e | e e | \"i\" ;\n"},
	{"repeated-identical-problems", "grammar rp ;\nAA = \"x\" ;\nAA = \"y\" ;\nAA = \"z\" ;\nBB = \"q\" ;\nCC = \"q\" ;\nDD = \"q\" ;\nEE = $NOPE ;\nFF = $NOPE ;\nstart = e UU ;\ne = UU AA | f UU BB | CC DD EE FF | g ;\nf = UU VV | g g ;\n"},
	// an unresolved conflict whose report names synthesised rules (numbered names): the numbering must start afresh
	{"conflict-naming-synthesised-rules", "grammar sy ;\nstart = e ;\ne = e ( \"+\" | \"-\" \"-\" ) e | [ \"!\" \"!\" ] \"i\" | {{ \"a\" \"b\" }} ;\n"},
	// a rule that derives no terminal string next to an ambiguous one: the dependency's table builder either crashes
	// (recovered by emerge) or reports the ambiguity, depending on the order of its shuffled sets - the known finding
	// dep-lalr-crash-depends-on-order
	{"rule-without-sentences", "grammar ns ;\nstart = start | \"a\" \"b\" ;\nx = x ;\n"},
	// a specification that fails in two stages of the generator (conflicting definitions AND an unresolved LALR(1)
	// conflict): both reports, in the order of the stages
	{"two-stages-fail", "grammar ts ;\nID = /[a-z]+/ ;\nKEY = /[a-c]+/ ;\nstart = e ;\ne = e \"+\" e | ID | KEY ;\n"},
	// a literal spelled like a non-terminal: alternatives that differ only in the kind of a same-spelled symbol
	{"look-alike-symbols", "grammar ls ;\nNUM = /[0-9]+/ ;\nstart = value ;\nvalue = NUM | null | \"null\" | \"value\" | \"[\" value \"]\" ;\nnull = \"nil\" | \"none\" | nil ;\nnil = \"null\" \"nil\" ;\n"},
	{"valid-with-operators", "grammar ops ;\nID = $ID ;\nWS = $WS ;\n@left \"*\" ;\n@left \"+\" ;\nstart = { stmt } ;\nstmt = ID \"=\" e \";\" ;\ne = e \"+\" e | e \"*\" e | [ \"-\" ] ID | \"(\" e \")\" ;\n"},
}

// The scenarios that end in several diagnostics are also written on ONE line: every declaration then has the same line
// number, so an ordering of the diagnostics (or of the names inside one diagnostic) by line alone ties everywhere.
func init() {
	oneLine := map[string]bool{"two-definition-conflicts": true, "two-duplicate-values": true, "undefined-and-multiple": true, "mixed-kinds-multiple": true,
		"mixed-kinds-same-value": true, "handles-in-two-levels": true, "repeated-identical-problems": true, "two-stages-fail": true}
	for _, sc := range scenarios {
		if oneLine[sc.name] {
			scenarios = append(scenarios, struct{ name, text string }{sc.name + "-one-line", strings.ReplaceAll(strings.TrimSpace(sc.text), "\n", " ") + "\n"})
		}
	}
}

// recorder is a ui.UI that records every message.
type recorder struct {
	lines []string
	level ui.Level
}

func (u *recorder) add(kind, f string, a ...interface{}) {
	u.lines = append(u.lines, kind+": "+stripEmoji(fmt.Sprintf(f, a...)))
}
func (u *recorder) Printf(f string, a ...interface{})             { u.add("print", f, a...) }
func (u *recorder) GetLevel() ui.Level                            { return u.level }
func (u *recorder) SetLevel(l ui.Level)                           { u.level = l }
func (u *recorder) Tracef(_ ui.Style, f string, a ...interface{}) { u.add("trace", f, a...) }
func (u *recorder) Debugf(_ ui.Style, f string, a ...interface{}) { u.add("debug", f, a...) }
func (u *recorder) Infof(_ ui.Style, f string, a ...interface{})  { u.add("info", f, a...) }
func (u *recorder) Warnf(_ ui.Style, f string, a ...interface{})  { u.add("warn", f, a...) }
func (u *recorder) Errorf(_ ui.Style, f string, a ...interface{}) { u.add("error", f, a...) }

func stripEmoji(s string) string {
	var b strings.Builder
	for _, r := range s {
		if r < 0x2000 {
			b.WriteRune(r)
		}
	}
	return b.String()
}

var scratch string
var runNo int

// execute runs the pipeline once and returns a digest of everything observable plus a readable rendering.
// execute runs the pipeline once as a thread of the cooperative scheduler: goroutines the code under test starts (its
// go statements, channel operations and package sync are routed to rt by the instrumenter) join that scheduler, so the
// explorer owns their interleaving as it owns iteration orders.
func execute(text string) (digest, full string) {
	panics, capped := rt.RunThreads([]func(){func() { digest, full = executeBody(text) }})
	extra := ""
	for k, p := range panics {
		if p != nil {
			extra += fmt.Sprintf("GOROUTINE %d PANICS %v\n", k, p)
		}
	}
	if rt.Deadlocked {
		extra += "DEADLOCK: goroutines of the tool wait for each other\n"
	}
	if capped {
		extra += "HORIZON reached\n"
	}
	if extra != "" {
		full += extra
		digest = fmt.Sprintf("%x", sha256.Sum256([]byte(full)))
	}
	return digest, full
}

func executeBody(text string) (string, string) {
	runNo++
	dir := filepath.Join(scratch, fmt.Sprintf("r%d", runNo%8))
	_ = os.RemoveAll(dir)
	_ = os.MkdirAll(dir, 0o755)
	var b strings.Builder
	func() {
		defer func() {
			if p := recover(); p != nil {
				fmt.Fprintf(&b, "PANIC %v\n", p)
			}
		}()
		s, err := spec.Parse("f.g", strings.NewReader(text))
		if err != nil {
			fmt.Fprintf(&b, "PARSE ERROR\n%s\n", err)
			return
		}
		u := &recorder{}
		err = golang.Generate(u, &golang.Params{Path: dir, Spec: s})
		for _, l := range u.lines {
			// the scratch directory name is not part of the observation
			fmt.Fprintf(&b, "UI %s\n", strings.ReplaceAll(l, dir, "<out>"))
		}
		if err != nil {
			fmt.Fprintf(&b, "GENERATE ERROR\n%s\n", strings.ReplaceAll(err.Error(), dir, "<out>"))
		}
		var files []string
		_ = filepath.Walk(dir, func(p string, info os.FileInfo, err error) error {
			if err == nil && !info.IsDir() {
				files = append(files, p)
			}
			return nil
		})
		sort.Strings(files)
		for _, f := range files {
			c, _ := os.ReadFile(f)
			rel, _ := filepath.Rel(dir, f)
			fmt.Fprintf(&b, "FILE %s %x\n%s\n", rel, sha256.Sum256(c), c)
		}
	}()
	full := b.String()
	return fmt.Sprintf("%x", sha256.Sum256([]byte(full))), full
}

func firstDiff(a, b string) string {
	la, lb := strings.Split(a, "\n"), strings.Split(b, "\n")
	for i := 0; i < len(la) || i < len(lb); i++ {
		var x, y string
		if i < len(la) {
			x = la[i]
		}
		if i < len(lb) {
			y = lb[i]
		}
		if x != y {
			return fmt.Sprintf("line %d:\n  default orders: %s\n  this execution: %s", i+1, clip(x), clip(y))
		}
	}
	return "no textual difference"
}

func clip(s string) string {
	if len(s) > 200 {
		return s[:200] + "…"
	}
	return s
}

// tableErr cuts the report of the LALR(1) table construction out of an observation.
func tableErr(obs string) (rest, report string) {
	const marker = "error on building LALR(1) parsing table:"
	i := strings.Index(obs, marker)
	if i < 0 {
		return obs, ""
	}
	j := strings.Index(obs[i:], "\nFILE ")
	if k := strings.Index(obs[i:], "\nSTDERR\n"); k >= 0 && (j < 0 || k < j) {
		j = k
	}
	if j < 0 {
		return obs[:i], obs[i:]
	}
	return obs[:i] + obs[i+j:], obs[i : i+j]
}

// classify names the known finding that explains a pair of differing observations ("" = none).
// dep-lalr-crash-depends-on-order: the specification has a rule that derives no terminal string, both observations
// are identical outside the report of the table construction, and exactly one report is the recovered nil dereference
// inside the dependency's table builder.
func classify(text, a, b string) string {
	ra, ta := tableErr(a)
	rb, tb := tableErr(b)
	if ta == "" || tb == "" || ra != rb {
		return ""
	}
	if strings.Contains(ta, "nil pointer dereference") == strings.Contains(tb, "nil pointer dereference") {
		return ""
	}
	sp, err := ebnfref.ParseSpec(text)
	if err != nil {
		return ""
	}
	langs := sp.Languages(6)
	for _, d := range sp.Decls {
		if rule, ok := d.(*ebnfref.Rule); ok && len(langs[rule.LHS]) == 0 {
			return "dep-lalr-crash-depends-on-order"
		}
	}
	return ""
}

type replayInput struct {
	Scenario string
	Choices  []int
}

// inRepo: the point lies in /repo, or lies in the dependency but was reached directly from a line of /repo
// (the dependency's shuffled iteration order leaking into emerge's own loops).
func inRepo(site string) bool {
	return site == "sched" || strings.HasPrefix(site, "internal/") || strings.HasPrefix(site, "cmd/") || strings.Contains(site, "@internal/")
}

func main() {
	r := ev.Start("C15", "model_checking")
	var err error
	scratch, err = os.MkdirTemp("", "verif-c15-")
	if err != nil {
		ev.Fatal("mktemp: %v", err)
	}
	r.OnFinish(func() { os.RemoveAll(scratch) })
	if r.Replay != "" {
		var in replayInput
		if err := r.LoadReplay(&in); err != nil {
			ev.Fatal("%v", err)
		}
		for _, sc := range scenarios {
			if sc.name != in.Scenario {
				continue
			}
			rt.Begin(nil, nil)
			base, baseFull := execute(sc.text)
			rt.End()
			for k := 0; k < 2; k++ {
				e := rt.Begin(in.Choices, nil)
				d, full := execute(sc.text)
				rt.End()
				if e.Diverged != "" {
					ev.Fatal("replay diverged: %s", e.Diverged)
				}
				fmt.Printf("replay run %d: identical to default orders: %v\n", k+1, d == base)
				if d != base && k == 1 {
					r.Report("", fmt.Sprintf("scenario %s: observable output depends on an iteration order; %s", sc.name, firstDiff(baseFull, full)), in)
				}
			}
		}
		r.Finish()
	}
	if os.Getenv("VERIF_WORKER") == "" {
		freshProcesses(r)
	}
	if r.Fork(16) {
		r.Set("rule", "20 scenarios (every map on the path has >= 2 entries); one execution = spec.Parse + golang.Generate into a fresh directory with a recording UI; every range over a Go map in /repo and in the dependency, every shuffle of the dependency and - should the tool start goroutines - every scheduling decision at a goroutine start, channel operation, lock, unlock or wait of /repo is a choice point; all executions with at most d non-default orders are enumerated (quick: d=1 over all /repo points and the first 3 occurrences of every dependency site; thorough: d=2 over /repo points, d=2 with the second deviation at a map range of /repo, d=1 over the first 12 occurrences of every other dependency site; dependency points reached directly from a line of /repo count as /repo points); states = distinct observations (must be 1 per scenario), transitions = executions")
		r.Set("evaluations", r.Get("executions"))
		r.Set("transitions", r.Get("executions"))
		r.Set("traces_validated_against_impl", r.Get("executions"))
		if r.Get("states") == 0 {
			r.Set("states", 1)
		}
		r.Finish()
	}
	shard, nshards := r.ShardInfo()
	r.Set("exhaustive", true)
	for si, sc := range scenarios {
		if only := os.Getenv("VERIF_C15_ONLY"); only != "" && only != sc.name {
			continue
		}
		depOcc := 3
		if !r.Quick() {
			depOcc = 12
		}
		if v, err := strconv.Atoi(os.Getenv("VERIF_C15_DEPOCC")); err == nil {
			depOcc = v
		}
		var base, baseFull string
		observations := map[string]bool{}
		sites := map[string]bool{}
		level1 := 0
		x := &rt.Explorer{
			Bound: 1,
			Filter: func(site string, occ int) bool {
				return inRepo(site) || occ < depOcc
			},
			Run: func() string {
				d, full := execute(sc.text)
				if base == "" {
					base, baseFull = d, full
				}
				if d != base {
					return full
				}
				return ""
			},
			Budget: func() bool { return !r.Expired() },
		}
		if !r.Quick() {
			x.Bound = 2
			x.SecondArity = 25
		}
		if v, err := strconv.Atoi(os.Getenv("VERIF_C15_BOUND")); err == nil {
			x.Bound = v
		}
		if v, err := strconv.Atoi(os.Getenv("VERIF_C15_SECOND_ARITY")); err == nil {
			x.SecondArity = v
		}
		x.Visit = func(choices []int, points []rt.ChoicePoint, obs string) {
			r.Add("executions", 1)
			dev := -1
			ndev := 0
			for i, c := range choices {
				if c != 0 {
					ndev++
					if dev < 0 {
						dev = i
					}
				}
			}
			for _, p := range points {
				sites[p.Site] = true
			}
			if ndev == 0 {
				level1 = len(points)
			}
			key := "same"
			if obs != "" {
				key = fmt.Sprintf("%x", sha256.Sum256([]byte(obs)))
			}
			if !observations[key] {
				observations[key] = true
				if key != "same" {
					site := "?"
					if dev >= 0 {
						site = points[dev].Site
					}
					what := "the iteration order at " + site
					if site == "sched" {
						what = "the order in which the goroutines of the tool run (a scheduling decision at a goroutine start, channel operation, lock or wait)"
					}
					r.Report(classify(sc.text, baseFull, obs), fmt.Sprintf("scenario %s: observable output depends on %s (choice %v); %s", sc.name, what, trim(choices), firstDiff(baseFull, obs)),
						replayInput{Scenario: sc.name, Choices: trim(choices)})
				}
			}
		}
		x.Shard, x.NShards = shard, nshards
		// a second deviation only at points that lie in /repo itself (map ranges), not at attributed dependency points
		x.SecondLevel = func(site string) bool {
			return site == "sched" || strings.HasPrefix(site, "internal/") || strings.HasPrefix(site, "cmd/")
		}
		x.Explore()
		if x.Capped {
			r.Set("exhaustive", false)
		}
		for _, d := range x.Diverged {
			r.InternalError("scenario %s: exploration diverged while replaying a prefix: %s", sc.name, d)
		}
		r.Add("states", 0)
		if shard == 0 {
			r.Add("states", 1)
			r.Add("choice_points_in_default_execution", level1)
			r.Add("static_sites_reached", len(sites))
			r.Sample(map[string]any{"scenario": sc.name, "specification": sc.text, "choice_points": level1, "static_sites": len(sites)})
		}
		r.Add("states", len(observations)-1)
		r.Distinct(fmt.Sprintf("%d/%d", si, shard))
	}
	r.Assume("every order rt can produce is an order the Go runtime / the dependency's shuffles may produce; maps keyed by pointers keep the runtime's own order as base order (still explored, not reproducible across processes)")
	r.Assume("observation = bytes of every emitted file + error text + recorded UI messages with emoji stripped")
	r.Finish()
}

func trim(c []int) []int {
	n := len(c)
	for n > 0 && c[n-1] == 0 {
		n--
	}
	return append([]int{}, c[:n]...)
}

// freshProcesses is the complement to the exploration (not the deciding step): the real binary is run several times
// per scenario in new processes (each with its own map-iteration seed and time-seeded shuffles) and everything it
// prints and writes is compared byte-wise.
func freshProcesses(r *ev.Run) {
	bdir, err := os.MkdirTemp("", "verif-c15-bin-")
	if err != nil {
		ev.Fatal("mktemp: %v", err)
	}
	defer os.RemoveAll(bdir)
	bin := filepath.Join(bdir, "emerge")
	build := exec.Command("go", "build", "-o", bin, "./cmd/emerge")
	build.Dir = "/repo"
	if out, err := build.CombinedOutput(); err != nil {
		ev.Fatal("building the CLI failed: %v\n%s", err, out)
	}
	runs := 4
	if !r.Quick() {
		runs = 12
	}
	for _, sc := range scenarios {
		var first, firstFull string
		for k := 0; k < runs; k++ {
			dir := filepath.Join(bdir, fmt.Sprintf("%s-%d", sc.name, k))
			_ = os.MkdirAll(filepath.Join(dir, "out"), 0o755)
			_ = os.WriteFile(filepath.Join(dir, "f.g"), []byte(sc.text), 0o644)
			cmd := exec.Command(bin, "-out=out", "-verbose", "f.g")
			cmd.Dir = dir
			// every run has its own working directory, home, user, temporary directory, time zone and locale: nothing of
			// the environment may reach the output
			cmd.Env = append(os.Environ(), "NO_COLOR=1", "TERM=dumb", "HOME="+dir, "TMPDIR="+dir, fmt.Sprintf("USER=user%d", k), fmt.Sprintf("LOGNAME=user%d", k),
				"TZ="+[]string{"UTC", "Asia/Tokyo", "America/New_York", "Europe/Berlin"}[k%4], "LANG="+[]string{"C", "en_US.UTF-8", "de_DE.UTF-8", "tr_TR.UTF-8"}[k%4], "LC_ALL="+[]string{"C", "en_US.UTF-8", "de_DE.UTF-8", "tr_TR.UTF-8"}[k%4])
			var so, se strings.Builder
			cmd.Stdout, cmd.Stderr = &so, &se
			err := cmd.Run()
			var b strings.Builder
			fmt.Fprintf(&b, "EXIT %v\nSTDOUT\n%s\nSTDERR\n%s\n", err, stripEmoji(so.String()), stripEmoji(se.String()))
			var files []string
			_ = filepath.Walk(filepath.Join(dir, "out"), func(p string, info os.FileInfo, err error) error {
				if err == nil && !info.IsDir() {
					files = append(files, p)
				}
				return nil
			})
			sort.Strings(files)
			for _, f := range files {
				c, _ := os.ReadFile(f)
				rel, _ := filepath.Rel(dir, f)
				fmt.Fprintf(&b, "FILE %s\n%s\n", rel, c)
			}
			full := b.String()
			d := fmt.Sprintf("%x", sha256.Sum256([]byte(full)))
			r.Add("fresh_process_runs", 1)
			if k == 0 {
				first, firstFull = d, full
			} else if d != first {
				r.Report(classify(sc.text, firstFull, full), fmt.Sprintf("scenario %s: two runs of the command-line tool in fresh processes differ; %s", sc.name, firstDiff(firstFull, full)), replayInput{Scenario: sc.name})
				break
			}
			_ = os.RemoveAll(dir)
		}
	}
}
