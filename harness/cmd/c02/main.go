// C02: token patterns compile to automata that accept exactly the pattern's language.
// Deciding step: for every enumerated pattern tree the product of (reference derivative automaton,
// nfa.Parse automaton, Spec.DFA pipeline automaton) is explored over ASCII\{NUL} plus non-ASCII probes.
package main

import (
	"fmt"
	"regexp"

	"github.com/gardenbed/emerge/internal/ebnf/parser"
	"github.com/gardenbed/emerge/verif/ev"
	"github.com/gardenbed/emerge/verif/ref/regexref"
	"github.com/gardenbed/emerge/verif/rx"
)

func atomsCore() []*regexref.Atom {
	a, b := regexref.Lit('a'), regexref.Lit('b')
	return []*regexref.Atom{a, b, regexref.Dot(), regexref.GroupAtom(false, a, b), regexref.GroupAtom(true, a), regexref.ClassAtom(`\d`)}
}

func quantsCore() []*regexref.Quant {
	var out []*regexref.Quant
	for _, t := range []string{"?", "*", "+", "{2}", "{1,}", "{0,2}"} {
		out = append(out, regexref.MkQuant(t, false))
	}
	return append(out, regexref.MkQuant("*", true))
}

// allAtoms lists every class, escape and bracket form individually.
func allAtoms() []*regexref.Atom {
	L := regexref.Lit
	var out []*regexref.Atom
	for _, r := range []rune{'a', 'b', 'c', 'Z', '0', '_', ' ', '~', '!', '"', '\'', '/', '-', ',', ':'} {
		out = append(out, L(r))
	}
	// '^' cannot be escaped with a backslash and is the start anchor in first position: written as \x5E.
	out = append(out, &regexref.Atom{Text: `\x5E`, Set: regexref.Runes('^')})
	for _, r := range regexref.EscapedChars {
		out = append(out, L(r))
	}
	for _, t := range []struct {
		text string
		r    rune
	}{{`\x61`, 'a'}, {`\x0061`, 'a'}, {`\x000061`, 'a'}, {`\x00000061`, 'a'}, {`\x09`, '\t'}, {`\x0A`, '\n'}, {`\x7F`, 0x7F}, {`\x01`, 1},
		{`\xE9`, 0xE9}, {`\x00E9`, 0xE9}, {`\x0100`, 0x100}, {`\x4E00`, 0x4E00}, {`\x01F600`, 0x1F600}, {`\x0001F600`, 0x1F600}} {
		out = append(out, &regexref.Atom{Text: t.text, Set: regexref.Runes(t.r)})
	}
	out = append(out, regexref.Dot())
	for _, c := range []string{`\d`, `\D`, `\w`, `\W`, `\s`, `\S`} {
		out = append(out, regexref.ClassAtom(c))
	}
	for _, c := range regexref.ASCIIClassNames {
		out = append(out, regexref.ClassAtom(c))
	}
	a, b, c := L('a'), L('b'), L('c')
	G, R, C := regexref.GroupAtom, regexref.RangeAtom, regexref.ClassAtom
	out = append(out,
		G(false, a), G(false, a, b), G(true, a), G(true, a, b), G(false, R('a', 'c')), G(true, R('a', 'c')), G(false, R('a', 'a')),
		G(false, R('a', 'c'), R('0', '2')), G(false, R('a', 'c'), L('x')), G(false, L('x'), R('a', 'c')),
		G(false, C(`\d`)), G(true, C(`\d`)), G(false, C(`\D`)), G(false, C(`\w`), L('-')), G(false, C(`\s`), C(`\S`)), G(true, C(`\s`), C(`\S`)),
		G(false, C(`[:digit:]`), L('x')), G(true, C(`[:alpha:]`)), G(false, C(`[:ascii:]`)), G(true, C(`[:ascii:]`)), G(false, C(`[:space:]`), C(`[:upper:]`)),
		G(false, L('.'), L(']'), L('[')), G(false, L('\\')), G(true, L('\\'), L(']')), G(false, a, L('^')),
		G(false, &regexref.Atom{Text: `\x41-\x43`, Set: regexref.NewSet(regexref.Range{Lo: 'A', Hi: 'C'})}),
		G(false, &regexref.Atom{Text: `\x0041-\x0043`, Set: regexref.NewSet(regexref.Range{Lo: 'A', Hi: 'C'})}),
		G(false, R(0x100, 0x102)), G(false, a, L(0x100)), G(true, L(0x100)), G(false, R('z', 0x100)), G(false, R(0xE9, 0xE9)),
		G(false, R(0x1F600, 0x1F602)), G(true, a, R(0x4E00, 0x4E01)),
		G(false, a, b, c, L('0'), L('_')),
	)
	return out
}

func single(a *regexref.Atom, q *regexref.Quant) *regexref.Item { return &regexref.Item{Atom: a, Q: q} }
func sub(items ...*regexref.Item) *regexref.Sub                  { return &regexref.Sub{Items: items} }
func expr(subs ...*regexref.Sub) *regexref.Expr                  { return &regexref.Expr{Alts: subs} }
func group(e *regexref.Expr, q *regexref.Quant) *regexref.Item   { return &regexref.Item{Group: e, Q: q} }

// contexts embeds one atom in the contexts that expose over-/under-matching at its borders.
func contexts(at *regexref.Atom) []*regexref.Expr {
	a, b := regexref.Lit('a'), regexref.Lit('b')
	star := regexref.MkQuant("*", false)
	plus := regexref.MkQuant("+", false)
	return []*regexref.Expr{
		expr(sub(single(at, nil))),
		expr(sub(single(at, star))),
		expr(sub(single(a, nil), single(at, nil), single(b, nil))),
		expr(sub(single(at, nil)), sub(single(b, nil))),
		expr(sub(group(expr(sub(single(at, nil))), plus))),
		expr(sub(single(at, nil), single(at, nil))),
	}
}

// quantBodies applies one quantifier to the bodies that distinguish quantifier bugs.
func quantBodies(q *regexref.Quant) []*regexref.Expr {
	a, b := regexref.Lit('a'), regexref.Lit('b')
	opt := regexref.MkQuant("?", false)
	return []*regexref.Expr{
		expr(sub(single(a, q))),
		expr(sub(single(regexref.Dot(), q))),
		expr(sub(group(expr(sub(single(a, nil), single(b, nil))), q))),
		expr(sub(group(expr(sub(single(a, opt))), q))),
		expr(sub(group(expr(sub(single(a, nil)), sub(single(b, nil))), q))),
		expr(sub(single(b, nil), single(a, q), single(b, nil))),
		expr(sub(single(a, q), single(a, nil))),
		expr(sub(group(expr(sub(single(a, q))), q))),
	}
}

func main() {
	r := ev.Start("C02", "model_checking")
	if r.Replay != "" {
		var in struct{ Text string }
		if err := r.LoadReplay(&in); err != nil {
			ev.Fatal("%v", err)
		}
		t, err := regexref.Parse(in.Text)
		if err != nil {
			ev.Fatal("replay pattern not parseable by the reference: %v", err)
		}
		o := rx.CheckTree(t, rx.Routes{NFA: true, Pipeline: true})
		fmt.Printf("replay %q: ok=%v class=%q %s\n", in.Text, o.OK, o.Class, o.Msg)
		if !o.OK {
			r.Report(o.Class, o.Msg, in)
		}
		r.Finish()
	}
	selfTest()
	if r.Fork(16) {
		r.Set("rule", "pattern trees of the documented grammar enumerated by operator-node count over fixed atom/quantifier pools, plus every class/escape/bracket form in 6 contexts, every quantifier form on 8 bodies, and the 7 predefined patterns; a case is non-trivial if the product exploration visited > 1 state; distinct by canonical pattern text")
		r.Set("evaluations", r.Get("patterns"))
		r.Set("traces_validated_against_impl", r.Get("patterns"))
		r.Finish()
	}
	check := func(t *regexref.Expr, family string) {
		text := t.String()
		if !r.Mine(text) || r.Expired() {
			if r.Expired() {
				r.Set("exhaustive", false)
			}
			return
		}
		o := rx.CheckTree(t, rx.Routes{NFA: true, Pipeline: true})
		r.Add("patterns", 1)
		r.Add("patterns_"+family, 1)
		r.Add("states", o.States)
		r.Add("transitions", o.Transitions)
		if o.States > 1 {
			r.Distinct(text)
		}
		if r.Get("patterns")%997 == 1 {
			r.Sample(map[string]any{"pattern": text, "family": family, "product_states": o.States, "ok": o.OK})
		}
		if !o.OK {
			r.Report(o.Class, o.Msg, map[string]string{"Text": text})
		}
	}
	r.Set("exhaustive", true)

	// (a) full tree enumeration
	maxSize := 2
	if !r.Quick() {
		maxSize = 3
	}
	pools := regexref.Pools{Atoms: atomsCore(), Quants: quantsCore()}
	for n, level := range regexref.Trees(pools, maxSize) {
		for _, t := range level {
			check(t, fmt.Sprintf("trees_size%d", n))
		}
	}
	// (a') one size deeper over a reduced alphabet
	small := regexref.Pools{Atoms: []*regexref.Atom{regexref.Lit('a'), regexref.Dot()}, Quants: []*regexref.Quant{regexref.MkQuant("?", false), regexref.MkQuant("*", false)}}
	if !r.Quick() {
		small.Atoms = append(small.Atoms, regexref.Lit('b'))
		small.Quants = append(small.Quants, regexref.MkQuant("{2}", false))
	}
	for n, level := range regexref.Trees(small, maxSize+1) {
		if n != maxSize+1 {
			continue
		}
		for _, t := range level {
			check(t, fmt.Sprintf("trees_small_size%d", n))
		}
	}
	r.Set("bound_tree_size_full_pools", maxSize)
	r.Set("bound_tree_size_reduced_pools", maxSize+1)
	// (b) every atom form, every quantifier form
	for _, at := range allAtoms() {
		for _, t := range contexts(at) {
			check(t, "atoms")
		}
	}
	for _, q := range regexref.AllQuants() {
		for _, t := range quantBodies(q) {
			check(t, "quantifiers")
		}
	}
	// (c) predefined patterns
	for name, p := range parser.Predefs {
		t, err := regexref.Parse(p)
		if err != nil {
			r.Report("", fmt.Sprintf("predefined %s = %q is not a sentence of the documented pattern grammar: %v", name, p, err), map[string]string{"Text": p})
			continue
		}
		check(t, "predefs")
	}
	r.Assume("reference semantics: classes as tabulated in docs/5-definitions.md over 7-bit ASCII; '.', negated classes and negated brackets complement within 0x00-0x7F; lazy quantifiers denote the same language; '^' and '$' are not part of the compared language")
	r.Assume("alphabet of every product exploration: U+0001..U+007F, U+00E9, U+0100, U+4E00, U+1F600 and the neighbours of every non-ASCII range boundary in the pattern; NUL excluded as the property states")
	r.Finish()
}

// selfTest cross-checks the reference matcher against Go's regexp on the shared syntax, and the
// printer against the reference parser. A failure is a harness bug: exit 2, never a VIOLATION.
func selfTest() {
	pools := regexref.Pools{Atoms: atomsCore(), Quants: quantsCore()}
	var strs [][]rune
	sig := []rune{'a', 'b', '0', '\n'}
	var gen func(cur []rune, n int)
	gen = func(cur []rune, n int) {
		strs = append(strs, append([]rune{}, cur...))
		if n == 0 {
			return
		}
		for _, c := range sig {
			gen(append(cur, c), n-1)
		}
	}
	gen(nil, 3)
	for _, level := range regexref.Trees(pools, 2) {
		for _, t := range level {
			text := t.String()
			re, err := regexp.Compile(`^(?s:` + text + `)$`)
			if err != nil {
				ev.Fatal("self-test: Go regexp rejects %q: %v", text, err)
			}
			c := regexref.NewCtx()
			l := t.Lang(c, false)
			for _, s := range strs {
				if c.Match(l, s) != re.MatchString(string(s)) {
					ev.Fatal("self-test: reference and Go regexp disagree on %q for %q", text, string(s))
				}
			}
			t2, err := regexref.Parse(text)
			if err != nil || t2.String() != text {
				ev.Fatal("self-test: reference parser does not round-trip %q: %v", text, err)
			}
		}
	}
}
