// C02: token patterns compile to automata that accept exactly the pattern's language.
// Deciding step: for every enumerated pattern tree the product of (reference derivative automaton,
// nfa.Parse automaton, Spec.DFA pipeline automaton) is explored over ASCII\{NUL} plus non-ASCII probes.
package main

import (
	"fmt"
	"regexp"

	"github.com/gardenbed/emerge/internal/ebnf/parser"
	"github.com/gardenbed/emerge/verif/ev"
	"github.com/gardenbed/emerge/verif/ref/regexref"
	"github.com/gardenbed/emerge/verif/rx"
)

func main() {
	r := ev.Start("C02", "model_checking")
	if r.Replay != "" {
		var in struct{ Text string }
		if err := r.LoadReplay(&in); err != nil {
			ev.Fatal("%v", err)
		}
		t, err := regexref.Parse(in.Text)
		if err != nil {
			ev.Fatal("replay pattern not parseable by the reference: %v", err)
		}
		o := rx.CheckTree(t, rx.Routes{NFA: true, Pipeline: true})
		fmt.Printf("replay %q: ok=%v class=%q %s\n", in.Text, o.OK, o.Class, o.Msg)
		if !o.OK {
			r.Report(o.Class, o.Msg, in)
			for _, m := range o.More {
				r.Report(m.Class, m.Msg, in)
			}
		}
		r.Finish()
	}
	selfTest()
	if r.Fork(16) {
		r.Set("rule", "pattern trees of the documented grammar enumerated by operator-node count over fixed atom/quantifier pools, plus every class/escape/bracket form in 6 contexts, every quantifier form on 8 bodies, every bracket group assembled from up to 3 (quick) / 4 (thorough) of 14 bracket tokens (plain characters, `-`, `^`, a lone backslash, escapes, a hexadecimal character, a class) whose derivations in the documented grammar all denote the same set, and the 7 predefined patterns; a case is non-trivial if the product exploration visited > 1 state; distinct by canonical pattern text")
		r.Set("evaluations", r.Get("patterns"))
		r.Set("traces_validated_against_impl", r.Get("patterns"))
		r.Finish()
	}
	check := func(t *regexref.Expr, family string) {
		text := t.String()
		if !r.Mine(text) || r.Expired() {
			if r.Expired() {
				r.Set("exhaustive", false)
			}
			return
		}
		o := rx.CheckTree(t, rx.Routes{NFA: true, Pipeline: true})
		r.Add("patterns", 1)
		r.Add("patterns_"+family, 1)
		r.Add("states", o.States)
		r.Add("transitions", o.Transitions)
		if o.States > 1 {
			r.Distinct(text)
		}
		if r.Get("patterns")%997 == 1 {
			r.Sample(map[string]any{"pattern": text, "family": family, "product_states": o.States, "ok": o.OK})
		}
		if !o.OK {
			r.Report(o.Class, o.Msg, map[string]string{"Text": text})
			for _, m := range o.More {
				r.Report(m.Class, m.Msg, map[string]string{"Text": text})
			}
		}
	}
	r.Set("exhaustive", true)

	mf, mr := rx.Space(r.Quick(), check)
	r.Set("bound_tree_size_full_pools", mf)
	r.Set("bound_tree_size_reduced_pools", mr)
	// (b2) bracket groups assembled from every sequence of bracket tokens, where all derivations agree on the meaning
	nb := 3
	if !r.Quick() {
		nb = 4
	}
	groups, amb := rx.BracketSpace(nb, func(a *regexref.Atom) { check(rx.AtomExpr(a), "bracket_contents") })
	r.Set("bracket_groups_enumerated", groups)
	r.Set("bracket_groups_with_derivations_that_disagree_not_judged", amb)
	r.Set("bound_bracket_tokens", nb)
	// (c) predefined patterns
	for name, p := range parser.Predefs {
		t, err := regexref.Parse(p)
		if err != nil {
			r.Report("", fmt.Sprintf("predefined %s = %q is not a sentence of the documented pattern grammar: %v", name, p, err), map[string]string{"Text": p})
			continue
		}
		check(t, "predefs")
	}
	rx.BracketSpaceU(nb, func(a *regexref.Atom) { check(rx.AtomExpr(a), "bracket_contents_beyond_ascii") })
	kw := 5
	if !r.Quick() {
		kw = 7
	}
	rx.KeywordSpace(kw, check)
	rx.SequenceSpace(r.Quick(), check)
	rx.OverlapSpace(r.Quick(), check)
	rx.NestedQuantSpace(check)
	rx.PrefixAltSpace(check)
	rx.CountSpace(check)
	if !r.Quick() {
		rx.DeepSpace(check)
	}
	r.Assume("reference semantics: classes as tabulated in docs/5-definitions.md over 7-bit ASCII; '.', negated classes and negated brackets complement within 0x00-0x7F; lazy quantifiers denote the same language; '^' and '$' are not part of the compared language")
	r.Assume("alphabet of every product exploration: U+0001..U+007F, U+00E9, U+0100, U+4E00, U+1F600 and the neighbours of every non-ASCII range boundary in the pattern; NUL excluded as the property states")
	r.Finish()
}

// selfTest cross-checks the reference matcher against Go's regexp on the shared syntax, and the
// printer against the reference parser. A failure is a harness bug: exit 2, never a VIOLATION.
func selfTest() {
	pools := regexref.Pools{Atoms: rx.AtomsCore(), Quants: rx.QuantsCore()}
	var strs [][]rune
	sig := []rune{'a', 'b', '0', '\n'}
	var gen func(cur []rune, n int)
	gen = func(cur []rune, n int) {
		strs = append(strs, append([]rune{}, cur...))
		if n == 0 {
			return
		}
		for _, c := range sig {
			gen(append(cur, c), n-1)
		}
	}
	gen(nil, 3)
	for _, level := range regexref.Trees(pools, 2) {
		for _, t := range level {
			text := t.String()
			re, err := regexp.Compile(`^(?s:` + text + `)$`)
			if err != nil {
				ev.Fatal("self-test: Go regexp rejects %q: %v", text, err)
			}
			c := regexref.NewCtx()
			l := t.Lang(c, false)
			for _, s := range strs {
				if c.Match(l, s) != re.MatchString(string(s)) {
					ev.Fatal("self-test: reference and Go regexp disagree on %q for %q", text, string(s))
				}
			}
			t2, err := regexref.Parse(text)
			if err != nil || t2.String() != text {
				ev.Fatal("self-test: reference parser does not round-trip %q: %v", text, err)
			}
		}
	}
}
