// C03: the combined scanner automaton recognises exactly the union of the definitions, attributes every accepting
// state to the terminal that must win, and reports a conflict exactly when one is real.
package main

import (
	"fmt"
	"sort"
	"strings"

	auto "github.com/moorara/algo/automata"
	"github.com/moorara/algo/grammar"

	"github.com/gardenbed/emerge/internal/ebnf/parser/spec"
	"github.com/gardenbed/emerge/verif/defs"
	"github.com/gardenbed/emerge/verif/ev"
	"github.com/gardenbed/emerge/verif/ref/dfaops"
	"github.com/gardenbed/emerge/verif/ref/regexref"
	"github.com/gardenbed/emerge/verif/rx"
)

// def is one definition of the pool. For a literal, Src is the text between the quotes as written in a
// specification (escapes unresolved); for a predefined pattern, Src is the $NAME.
type def struct {
	Name    string
	Src     string
	Literal bool
	Predef  bool
}

var pool = []def{
	{"KIF", `if`, true, false}, {"KI", `i`, true, false}, {"KIN", `in`, true, false}, {"EQ", `=`, true, false}, {"EQEQ", `==`, true, false},
	{"DQ", `\"`, true, false}, {"BS", `\\`, true, false}, {"AQB", `a\"b`, true, false}, {"SL", `\/`, true, false},
	{"QQ", `\"\"`, true, false}, {"QAQ", `\"a\"`, true, false}, {"BSBS", `\\\\`, true, false}, {"BSQ", `\\\"x`, true, false},
	{"LOW", `[a-z]+`, false, false}, {"IX", `i[a-z]`, false, false}, {"IFIN", `if|in`, false, false}, {"EQS", `=+`, false, false},
	{"INT", `[0-9]+`, false, false}, {"NUM", `[0-9]+(\.[0-9]+)?`, false, false}, {"QUOTE", `"`, false, false}, {"AQ", `a"b?`, false, false}, {"QSTR", `"[a-z]*"`, false, false},
	{"AB", `ab`, true, false}, {"ABC", `ab|c`, false, false}, {"ABD", `ab|d`, false, false}, {"ABE", `ab|ee`, false, false},
	// patterns that also match the empty text (the start state is accepting): alone, with each other, with literals
	{"ASTAR", `a*`, false, false}, {"BSTAR", `b*`, false, false}, {"OPTXY", `(xy)?`, false, false}, {"DIGS", `[0-9]*`, false, false},
	// anchored patterns: the anchors are not characters
	{"CARET", `^if`, false, false}, {"DOLLAR", `in$`, false, false}, {"BOTH", `^=+$`, false, false},
	{"ID", `$ID`, false, true}, {"NUMBER", `$NUMBER`, false, true}, {"STRING", `$STRING`, false, true}, {"WS", `$WS`, false, true}, {"COMMENT", `$COMMENT`, false, true},
}

// poolU: definitions with characters beyond ASCII - literals in which a multi-byte character comes first, last and in
// the middle, next to patterns that match the same texts and more (every subset up to size 3 is explored as well)
var poolU = []def{
	{"UE", `é`, true, false}, {"UEA", `éa`, true, false}, {"UAE", `aé`, true, false}, {"UETE", `été`, true, false},
	{"UARR", `→>`, true, false}, {"UEMO", `😀!`, true, false}, {"UA", `a`, true, false},
	{"ULAT", `[a-z\x00E0-\x00FF]+`, false, false}, {"UES", `\x00E9+`, false, false}, {"UARRS", `[\x2190-\x21FF]>?`, false, false}, {"UEMOS", `\x01F600[!#]`, false, false},
}

// unescape resolves backslash escapes of a string literal (a backslash makes the next character literal).
func unescape(s string) string {
	var b strings.Builder
	esc := false
	for _, c := range s {
		if c == '\\' && !esc {
			esc = true
			continue
		}
		esc = false
		b.WriteRune(c)
	}
	return b.String()
}

func (d def) pattern() string {
	if d.Predef {
		return defs.Predefs[d.Src]
	}
	return d.Src
}

// refMachine builds the reference automaton of one definition.
func refMachine(c *regexref.Ctx, d def) (*regexref.Re, error) {
	if d.Literal {
		var parts []*regexref.Re
		for _, ch := range unescape(d.Src) {
			parts = append(parts, c.Sym(regexref.Runes(ch)))
		}
		return c.CatN(parts...), nil
	}
	t, err := regexref.Parse(d.pattern())
	if err != nil {
		return nil, err
	}
	return t.Lang(c, false), nil
}

type outcome struct {
	states, transitions int
	problems            []string
}

// judge compares what DFA() returned with the reference for the definition list ds.
func judge(ds []def, dfa *auto.DFA, termMap map[grammar.Terminal][]auto.State, dfaErr error) outcome {
	var out outcome
	c := regexref.NewCtx()
	refs := make([]dfaops.Machine, len(ds))
	sets := map[string]regexref.CharSet{}
	for i, d := range ds {
		re, err := refMachine(c, d)
		if err != nil {
			ev.Fatal("pool pattern %q: %v", d.Src, err)
		}
		c.Sets(re, sets)
		refs[i] = c.Machine(re)
	}
	alpha := rx.Alphabet(sets)
	// explore the product of the references alone: which sets of definitions match together?
	type node struct {
		st   []int
		path string
	}
	key := func(st []int) string { return fmt.Sprint(st) }
	start := make([]int, len(refs))
	for i, m := range refs {
		start[i] = m.Start()
	}
	var impl *dfaops.DFA
	owner := map[int]string{}
	if dfaErr == nil {
		impl = dfaops.FromDFA(dfa)
		for t, states := range termMap {
			for _, s := range states {
				if old, ok := owner[int(s)]; ok && old != string(t) {
					out.problems = append(out.problems, fmt.Sprintf("accepting state %d is attributed to both %s and %s", s, old, t))
				}
				owner[int(s)] = string(t)
			}
		}
	}
	type pnode struct {
		node
		impl int
	}
	startImpl := dfaops.Dead
	if impl != nil {
		startImpl = impl.Start()
	}
	queue := []pnode{{node{start, ""}, startImpl}}
	seen := map[string]bool{key(start) + fmt.Sprint(startImpl): true}
	conflictWitness := ""
	reported := map[string]bool{}
	add := func(p string) {
		if !reported[p] && len(out.problems) < 5 {
			reported[p] = true
			out.problems = append(out.problems, p)
		}
	}
	for len(queue) > 0 {
		cur := queue[0]
		queue = queue[1:]
		out.states++
		var match []int
		for i, m := range refs {
			if m.Accepting(cur.st[i]) {
				match = append(match, i)
			}
		}
		winner := ""
		if len(match) == 1 {
			winner = ds[match[0]].Name
		} else if len(match) > 1 {
			lits := 0
			for _, i := range match {
				if ds[i].Literal {
					lits++
					winner = ds[i].Name
				}
			}
			if lits != 1 {
				winner = ""
				if conflictWitness == "" {
					names := []string{}
					for _, i := range match {
						names = append(names, ds[i].Name)
					}
					conflictWitness = fmt.Sprintf("%q is matched by %v", cur.path, names)
				}
			}
		}
		if impl != nil {
			acc := impl.Accepting(cur.impl)
			switch {
			case acc != (len(match) > 0):
				add(fmt.Sprintf("text %q: the automaton accepts=%v, but %d definitions match it", cur.path, acc, len(match)))
			case acc && winner != "" && owner[cur.impl] != winner:
				add(fmt.Sprintf("text %q must be attributed to %s, the automaton attributes it to %q", cur.path, winner, owner[cur.impl]))
			}
		}
		for _, r := range alpha {
			nx := make([]int, len(refs))
			dead := true
			for i, m := range refs {
				nx[i] = m.Step(cur.st[i], r)
				dead = dead && nx[i] == dfaops.Dead
			}
			ni := dfaops.Dead
			if impl != nil {
				ni = impl.Step(cur.impl, r)
			}
			out.transitions++
			if dead && ni == dfaops.Dead {
				continue
			}
			k := key(nx) + fmt.Sprint(ni)
			if !seen[k] {
				seen[k] = true
				queue = append(queue, pnode{node{nx, cur.path + string(r)}, ni})
			}
		}
	}
	switch {
	case dfaErr != nil && conflictWitness == "":
		add(fmt.Sprintf("a conflict is reported although no text is matched by two definitions without exactly one literal among them: %v", dfaErr))
	case dfaErr == nil && conflictWitness != "":
		add(fmt.Sprintf("no conflict is reported although %s", conflictWitness))
	}
	return out
}

func callDFA(s *spec.Spec) (d *auto.DFA, tm map[grammar.Terminal][]auto.State, err error, pan any) {
	defer func() { pan = recover() }()
	d, tm, err = s.DFA()
	return
}

// direct builds the Spec value by hand, in the order emerge itself would list the definitions.
func direct(ds []def) *spec.Spec {
	s := &spec.Spec{}
	for _, d := range ds {
		s.Definitions = append(s.Definitions, &spec.TerminalDef{Terminal: grammar.Terminal(d.Name), Value: d.valueAsStored(), IsRegex: !d.Literal})
	}
	return s
}

func (d def) valueAsStored() string {
	if d.Literal {
		return d.Src
	}
	return d.pattern()
}

// specText writes a specification defining ds as named tokens.
func specText(ds []def) string {
	var b strings.Builder
	b.WriteString("grammar g ;\n")
	var names []string
	for _, d := range ds {
		switch {
		case d.Literal:
			fmt.Fprintf(&b, "%s = \"%s\" ;\n", d.Name, d.Src)
		case d.Predef:
			fmt.Fprintf(&b, "%s = %s ;\n", d.Name, d.Src)
		default:
			fmt.Fprintf(&b, "%s = /%s/ ;\n", d.Name, strings.ReplaceAll(d.Src, "/", `\/`))
		}
		names = append(names, d.Name)
	}
	fmt.Fprintf(&b, "start = %s ;\n", strings.Join(names, " "))
	return b.String()
}

type input struct {
	Defs []string
	Via  string
	Full []def // the definitions themselves (generated sets are not in the pools)
}

func checkSet(r *ev.Run, ds []def, family string) {
	names := make([]string, len(ds))
	for i, d := range ds {
		names[i] = d.Name
	}
	// routes: the Spec built by hand (in emerge's order, in reverse order, and asked twice - the second answer is
	// judged), and the Spec that spec.Parse returns (asked directly, and asked after the parsing table was built)
	for _, via := range []string{"direct", "parse", "direct-reversed", "direct-twice", "parse-after-table"} {
		var s *spec.Spec
		if strings.HasPrefix(via, "direct") {
			s = direct(ds)
			if via == "direct-reversed" {
				for i, j := 0, len(s.Definitions)-1; i < j; i, j = i+1, j-1 {
					s.Definitions[i], s.Definitions[j] = s.Definitions[j], s.Definitions[i]
				}
			}
			if via == "direct-twice" {
				_, _, _, _ = callDFA(s)
			}
		} else {
			var err error
			var pan any
			func() {
				defer func() { pan = recover() }()
				s, err = spec.Parse("f.g", strings.NewReader(specText(ds)))
			}()
			if pan != nil || err != nil {
				r.Add("spec_parse_failures_left_to_C07_C14", 1)
				continue
			}
			if via == "parse-after-table" {
				func() {
					defer func() { _ = recover() }()
					_, _ = s.LALRParsingTable()
				}()
			}
		}
		in := input{Defs: names, Via: via, Full: ds}
		dfa, tm, err, pan := callDFA(s)
		r.Add("sets", 1)
		r.Add("sets_"+family, 1)
		if pan != nil {
			r.Add("panics_left_to_C14", 1)
			continue
		}
		if err != nil && !strings.Contains(err.Error(), "conflicting definitions") {
			r.Report("", fmt.Sprintf("definitions %v (%s): DFA() fails: %v", names, via, err), in)
			continue
		}
		if err != nil {
			r.Add("conflict_answers_"+family, 1)
		}
		// for the parsed route the definitions emerge lists may carry other names/order: map by name
		o := judge(ds, dfa, tm, err)
		r.Add("states", o.states)
		r.Add("transitions", o.transitions)
		if o.states > 1 {
			r.Distinct(strings.Join(names, ",") + via)
		}
		for _, p := range o.problems {
			r.Report("", fmt.Sprintf("definitions %v (%s): %s", names, via, p), in)
		}
	}
}

func main() {
	r := ev.Start("C03", "model_checking")
	byName := map[string]def{}
	for _, d := range append(append([]def{}, pool...), poolU...) {
		byName[d.Name] = d
	}
	if r.Replay != "" {
		var in input
		if err := r.LoadReplay(&in); err != nil {
			ev.Fatal("%v", err)
		}
		var ds []def
		for _, n := range in.Defs {
			ds = append(ds, byName[n])
		}
		if len(in.Full) > 0 {
			ds = in.Full
		}
		checkSet(r, ds, "replay")
		r.Finish()
	}
	if r.Fork(16) {
		r.Set("rule", fmt.Sprintf("every subset of up to the size bound of a pool of %d definitions (9 literals incl. escaped quote/backslash/slash, 15 patterns of which 4 also match the empty text and 3 are anchored, 5 predefined patterns; every relation: disjoint, prefix, nested, identical language, literal inside pattern, partial overlap), and every subset up to size 3 of 11 further definitions with characters beyond ASCII (a multi-byte character first, last and in the middle of a literal), each given to Spec.DFA directly (in emerge's order, in reverse order, and twice) and through spec.Parse (also after the parsing table was built); per set the product of the returned automaton with the reference automata of all definitions is explored; non-trivial = product with > 1 state; distinct by set+route", len(pool)))
		r.Set("evaluations", r.Get("sets"))
		r.Set("traces_validated_against_impl", r.Get("sets"))
		r.Finish()
	}
	r.Set("exhaustive", true)
	maxSize := 3
	if !r.Quick() {
		maxSize = 4
	}
	r.Set("bound_set_size", maxSize)
	n := 0
	var cur []def
	var rec func(from int)
	rec = func(from int) {
		if len(cur) > 0 {
			n++
			if r.MineIdx(n) {
				if r.Expired() {
					r.Set("exhaustive", false)
					return
				}
				ds := append([]def{}, cur...)
				// the order emerge uses: literals first, shorter names first, then by name
				sort.SliceStable(ds, func(i, j int) bool {
					if ds[i].Literal != ds[j].Literal {
						return ds[i].Literal
					}
					if len(ds[i].Name) != len(ds[j].Name) {
						return len(ds[i].Name) < len(ds[j].Name)
					}
					return ds[i].Name < ds[j].Name
				})
				checkSet(r, ds, fmt.Sprintf("size%d", len(ds)))
				if n%211 == 0 {
					r.Sample(map[string]any{"definitions": specText(ds)})
				}
			}
		}
		if len(cur) == maxSize {
			return
		}
		for i := from; i < len(pool); i++ {
			cur = append(cur, pool[i])
			rec(i + 1)
			cur = cur[:len(cur)-1]
		}
	}
	rec(0)
	// the same over the definitions with characters beyond ASCII
	var recU func(from int)
	recU = func(from int) {
		if len(cur) > 0 {
			n++
			if r.MineIdx(n) && !r.Expired() {
				ds := append([]def{}, cur...)
				sort.SliceStable(ds, func(i, j int) bool {
					if ds[i].Literal != ds[j].Literal {
						return ds[i].Literal
					}
					if len(ds[i].Name) != len(ds[j].Name) {
						return len(ds[i].Name) < len(ds[j].Name)
					}
					return ds[i].Name < ds[j].Name
				})
				checkSet(r, ds, fmt.Sprintf("non_ascii_size%d", len(ds)))
			}
		}
		if len(cur) == 3 {
			return
		}
		for i := from; i < len(poolU); i++ {
			cur = append(cur, poolU[i])
			recU(i + 1)
			cur = cur[:len(cur)-1]
		}
	}
	cur = nil
	recU(0)
	// many definitions at once (state numbers of the union with two and three digits, terminal indices beyond the
	// first few): a pool of 21 definitions that do not conflict with one another (patterns overlap literals only),
	// whole, without every one (quick) / every two (thorough) of its members, every window of 5 to 16 consecutive
	// members; and windows of 5 to 12 members of the whole pool taken with strides 1 to 3, where conflicts are frequent
	var big []def
	for _, nm := range []string{"KIF", "KI", "KIN", "EQ", "EQEQ", "DQ", "BS", "AQB", "SL", "QQ", "QAQ", "BSBS", "BSQ", "AB", "LOW", "INT", "EQS", "QSTR", "WS", "COMMENT", "UETE"} {
		big = append(big, byName[nm])
	}
	order := func(ds []def) []def {
		ds = append([]def{}, ds...)
		sort.SliceStable(ds, func(i, j int) bool {
			if ds[i].Literal != ds[j].Literal {
				return ds[i].Literal
			}
			if len(ds[i].Name) != len(ds[j].Name) {
				return len(ds[i].Name) < len(ds[j].Name)
			}
			return ds[i].Name < ds[j].Name
		})
		return ds
	}
	var bigSets [][]def
	bigSets = append(bigSets, big)
	without := func(skip ...int) []def {
		var ds []def
		for i, d := range big {
			if (len(skip) > 0 && i == skip[0]) || (len(skip) > 1 && i == skip[1]) {
				continue
			}
			ds = append(ds, d)
		}
		return ds
	}
	for i := range big {
		bigSets = append(bigSets, without(i))
		if !r.Quick() {
			for j := i + 1; j < len(big); j++ {
				bigSets = append(bigSets, without(i, j))
			}
		}
	}
	for size := 5; size <= 16; size++ {
		for i := 0; i+size <= len(big); i++ {
			bigSets = append(bigSets, big[i:i+size])
		}
	}
	sizes := []int{5, 6, 8}
	if !r.Quick() {
		sizes = []int{5, 6, 7, 8, 10, 12}
	}
	for _, size := range sizes {
		for stride := 1; stride <= 3; stride++ {
			for i := range pool {
				var ds []def
				for k := 0; k < size; k++ {
					ds = append(ds, pool[(i+k*stride)%len(pool)])
				}
				bigSets = append(bigSets, ds)
			}
		}
	}
	// generated wide sets: 0 to 3 literals, an identifier pattern that contains them, and up to 20 patterns that are
	// pairwise disjoint (`na[0-9]+`, `nb[0-9]+`, ...) - conflict-free as they stand; and the same with the pattern at
	// index j given the text of the pattern at index i, for every pair i < j (a real conflict at every pair of indices)
	genLits := []def{{"GIF", `if`, true, false}, {"GSEMI", `;`, true, false}, {"GIN", `in`, true, false}}
	totals := []int{5, 9, 10, 11, 12, 13, 14, 17}
	if !r.Quick() {
		totals = []int{5, 6, 7, 8, 9, 10, 11, 12, 13, 14, 15, 16, 17, 20, 24}
	}
	for _, total := range totals {
		for nl := 0; nl <= 3; nl++ {
			base := append([]def{}, genLits[:nl]...)
			base = append(base, def{"GID", `[a-z]+`, false, false})
			for k := 0; len(base) < total; k++ {
				base = append(base, def{"N" + string(rune('A'+k)), "n" + string(rune('a'+k)) + "[0-9]+", false, false})
			}
			bigSets = append(bigSets, base)
			if nl == 1 || nl == 3 || (!r.Quick() && total <= 16) {
				for i := nl; i < total; i++ {
					for j := i + 1; j < total; j++ {
						ds := append([]def{}, base...)
						ds[j].Src = ds[i].Src
						bigSets = append(bigSets, ds)
					}
				}
			}
		}
	}
	for _, ds := range bigSets {
		n++
		if r.MineIdx(n) && !r.Expired() {
			checkSet(r, order(ds), "many_definitions")
		}
	}
	r.Assume("a string literal denotes its characters with backslash escapes resolved (a backslash makes the next character literal); pattern semantics as in C02; the pool avoids classes containing NUL, so the known finding nul-epsilon of C02 does not interfere here")
	r.Finish()
}
