// c17race: the free-running complement of C17. Built with -race and WITHOUT instrumentation: real goroutines run the
// operations concurrently; the race detector's reports go to stderr and are classified by the parent (cmd/c17).
package main

import (
	"fmt"
	"os"
	"strconv"
	"sync"
)

func main() {
	rounds, _ := strconv.Atoi(os.Args[1])
	var wg sync.WaitGroup
	for r := 0; r < rounds; r++ {
		for i := range Ops {
			wg.Add(1)
			go func(i int) {
				defer wg.Done()
				defer func() {
					if p := recover(); p != nil {
						fmt.Fprintf(os.Stderr, "PANIC in %s: %v\n", Ops[i].Name, p)
					}
				}()
				Ops[i].Run()
			}(i)
		}
		wg.Wait()
	}
	fmt.Println("done")
}
