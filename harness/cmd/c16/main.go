// C16: the CLI exits 0 and announces success iff the package was fully written into <out>/<name>; flags are
// honoured; an unusable name is rejected before anything is created; nothing that existed is ever modified.
// Configurations (flags x input class (three accepted specifications: ordinary, without any terminal, with a terminal owning no state; five rejected kinds) x pre-state (and five further spellings of -out: relative, ./, with .., trailing slash, as a separate argument) of the output location) are enumerated against the real binary,
// and for successful configurations an error is injected into the k-th mkdirat/openat/write/newfstatat for every k.
package main

import (
	"bytes"
	"crypto/sha256"
	"fmt"
	"io/fs"
	"os"
	"os/exec"
	"path/filepath"
	"sort"
	"strings"
	"time"

	"github.com/gardenbed/emerge/verif/ev"
	"github.com/gardenbed/emerge/verif/ref/cliref"
)

var inputs = map[string]string{
	"valid":    "grammar demo ;\nNUM = /[0-9]+/ ;\nstart = NUM \"+\" NUM ;\n",
	"lexical":  "grammar demo ;\nstart = \"a\" # ;\n",
	"semantic": "grammar demo ;\nstart = UNDEF ;\n",
	"tokconf":  "grammar demo ;\nAA = /[a-z]+/ ;\nBB = /[a-c]+/ ;\nstart = AA BB ;\n",
	"lalrconf": "grammar demo ;\nstart = e ;\ne = e \"+\" e | \"i\" ;\n",
	"missing":  "",
	// accepted specifications of unusual shape: no terminal at all; only implicit literals; a terminal owning no state
	"valid-no-terminal": "grammar demo ;\nstart = a a ;\na = ;\n",
	"valid-shadowed":    "grammar demo ;\nKW = /i[f]/ ;\nID = /[a-z]+/ ;\nstart = \"if\" KW ID ;\n",
}

// validLong: a specification of more than 1 KB whose first 512 bytes (what a reader gets in its first piece) are a
// complete specification of their own - with fewer terminals, so that a package generated from the first piece alone
// differs from the right one. Used with faults injected into read.
var validLong = func() string {
	head := "grammar demo ;\nNUM = /[0-9]+/ ;\nstart = NUM \"+\" NUM ;\n"
	pad := "// " + strings.Repeat("-", 512-len(head)-4) + "\n"
	tail := ""
	for i := 0; i < 40; i++ {
		tail += fmt.Sprintf("extra%d = \"zz%d\" NUM ;\n", i, i)
	}
	return head + pad + tail
}()

func init() { inputs["valid-long"] = validLong }

func valid(input string) bool { return strings.HasPrefix(input, "valid") }

var inputOrder = []string{"valid", "lexical", "semantic", "tokconf", "lalrconf", "missing", "valid-no-terminal", "valid-shadowed"}

var names = []string{"", "pk", "if", "1x", "a-b", "_", "a/b", "Größe", "demo"}

// moreNames are tried in a reduced product (valid / semantic input x three pre-states x {no flag, -debug}): every way a
// name can fail to be an identifier that the first list does not have (numeric but not decimal-digit runes, a leading
// non-ASCII digit, combining marks, blanks, dots), non-ASCII identifiers, and predeclared identifiers.
var moreNames = []string{"x²", "vⅧ", "half½", "x٣", "٣x", "π", "ａｂ", "e\u0301", "a b", "a.b", "a\\b", "..", ".", "int", "any", "nil", "Demo2", "Func", "GO", "Type", "iF", "__", "_x", "x_", " ", "\t", "\u00a0", " pk", "pk ", "\n"}

var preStates = []string{"out-missing", "out-is-file", "out-empty", "pkg-empty-dir", "pkg-dir-with-user-files", "pkg-dir-with-target-files", "pkg-is-file", "pkg-symlink-to-dir", "pkg-symlink-dangling", "no-out-flag"}

var targetFiles = []string{"errors.go", "input.go", "lexer.go", "parser.go", "stack.go", "types.go"}

// usable: the name can be the identifier of a Go package clause (go/token decides); "either": a predeclared identifier,
// legal for Go but refused by emerge - both answers are compatible with the property.
func usable(name string) bool { return cliref.NameClass(name) != "unusable" }
func grey(name string) bool   { return cliref.NameClass(name) == "predeclared" }

type config struct {
	Name, Input, Pre          string
	Debug, Verbose, Help, Ver bool
	Fault                     string // "" or "<syscall>:<errno>:<k>"
	OutForm                   string // how -out is spelled: "" (absolute), "rel", "dot", "dotdot", "slash", "sep" (-out D)
	OutName                   string // name of the output directory inside the scratch directory ("" = OUT); given relatively
}

func (c config) String() string {
	return fmt.Sprintf("name=%q input=%s pre=%s debug=%v verbose=%v help=%v version=%v fault=%s out=%s%s", c.Name, c.Input, c.Pre, c.Debug, c.Verbose, c.Help, c.Ver, c.Fault, c.OutForm, c.OutName)
}

type entry struct {
	kind, mode, sum, target string
	size                    int64
}

func snapshot(root string) map[string]entry {
	out := map[string]entry{}
	_ = filepath.WalkDir(root, func(p string, d fs.DirEntry, err error) error {
		if err != nil {
			return nil
		}
		rel, _ := filepath.Rel(root, p)
		info, err := os.Lstat(p)
		if err != nil {
			return nil
		}
		e := entry{mode: info.Mode().String(), size: info.Size()}
		switch {
		case info.Mode()&os.ModeSymlink != 0:
			e.kind = "symlink"
			e.target, _ = os.Readlink(p)
			e.size = 0
		case info.IsDir():
			e.kind = "dir"
			e.size = 0
		default:
			e.kind = "file"
			b, _ := os.ReadFile(p)
			e.sum = fmt.Sprintf("%x", sha256.Sum256(b))
		}
		out[rel] = e
		return nil
	})
	return out
}

// setup builds the scratch directory for a configuration and returns the argument list and the package directory.
func setup(dir string, c config) (args []string, pkgDir string) {
	_ = os.MkdirAll(dir, 0o755)
	_ = os.WriteFile(filepath.Join(dir, "keep.txt"), []byte("user data\n"), 0o644)
	if c.Input != "missing" {
		_ = os.WriteFile(filepath.Join(dir, "in.grammar"), []byte(inputs[c.Input]), 0o644)
	}
	name := c.Name
	if name == "" {
		name = "demo"
	}
	// a home directory of its own inside the scratch directory (the tool runs with HOME pointing at it), holding
	// directories named like the output directory, so that any rewriting of -out towards it shows in the snapshot
	_ = os.MkdirAll(filepath.Join(dir, "home", "OUT"), 0o755)
	_ = os.MkdirAll(filepath.Join(dir, "home", "gen"), 0o755)
	_ = os.WriteFile(filepath.Join(dir, "home", "keep.txt"), []byte("user data\n"), 0o644)
	outDir := filepath.Join(dir, "OUT")
	if c.OutName != "" {
		outDir = filepath.Join(dir, c.OutName)
	}
	if c.Pre == "no-out-flag" {
		outDir = dir
	} else if c.OutName != "" {
		args = append(args, "-out="+c.OutName)
	} else {
		// the same directory, spelled in the ways a path may be spelled (the tool runs with dir as working directory)
		switch c.OutForm {
		case "rel":
			args = append(args, "-out=OUT")
		case "dot":
			args = append(args, "-out=./OUT")
		case "dotdot":
			args = append(args, "-out=OUT/../OUT")
		case "slash":
			args = append(args, "-out="+outDir+"/")
		case "sep":
			args = append(args, "-out", outDir)
		default:
			args = append(args, "-out="+outDir)
		}
	}
	pkgDir = filepath.Join(outDir, name)
	switch c.Pre {
	case "out-missing":
	case "out-is-file":
		_ = os.WriteFile(outDir, []byte("i am a file\n"), 0o644)
	case "out-empty", "no-out-flag":
		_ = os.MkdirAll(outDir, 0o755)
	case "pkg-empty-dir":
		_ = os.MkdirAll(pkgDir, 0o755)
	case "pkg-dir-with-user-files":
		_ = os.MkdirAll(pkgDir, 0o755)
		_ = os.WriteFile(filepath.Join(pkgDir, "mine.go"), []byte("package mine\n"), 0o644)
	case "pkg-dir-with-target-files":
		_ = os.MkdirAll(pkgDir, 0o755)
		_ = os.WriteFile(filepath.Join(pkgDir, "lexer.go"), []byte("package old // precious\n"), 0o644)
		_ = os.WriteFile(filepath.Join(pkgDir, "types.go"), []byte("package old\n"), 0o600)
	case "pkg-is-file":
		_ = os.MkdirAll(outDir, 0o755)
		if !strings.Contains(name, "/") {
			_ = os.WriteFile(pkgDir, []byte("i am a file\n"), 0o644)
		}
	case "pkg-symlink-to-dir":
		_ = os.MkdirAll(outDir, 0o755)
		_ = os.MkdirAll(filepath.Join(dir, "elsewhere"), 0o755)
		_ = os.WriteFile(filepath.Join(dir, "elsewhere", "lexer.go"), []byte("package elsewhere\n"), 0o644)
		if !strings.Contains(name, "/") {
			_ = os.Symlink(filepath.Join(dir, "elsewhere"), pkgDir)
		}
	case "pkg-symlink-dangling":
		_ = os.MkdirAll(outDir, 0o755)
		if !strings.Contains(name, "/") {
			_ = os.Symlink(filepath.Join(dir, "nowhere"), pkgDir)
		}
	}
	if c.Name != "" {
		args = append(args, "-name="+c.Name)
	}
	if c.Debug {
		args = append(args, "-debug")
	}
	if c.Verbose {
		args = append(args, "-verbose")
	}
	if c.Help {
		args = append(args, "-help")
	}
	if c.Ver {
		args = append(args, "-version")
	}
	args = append(args, filepath.Join(dir, "in.grammar"))
	return args, pkgDir
}

type result struct {
	code           int
	stdout, stderr string
	before, after  map[string]entry
	pkgDir         string
	dir            string
}

func run(bin, tmp string, id int, c config) result {
	dir := filepath.Join(tmp, fmt.Sprintf("cfg%d", id))
	_ = os.RemoveAll(dir)
	args, pkgDir := setup(dir, c)
	res := result{pkgDir: pkgDir, dir: dir}
	res.before = snapshot(dir)
	var cmd *exec.Cmd
	if c.Fault != "" {
		// one or two faults: "<call>:<errno>:<k>[+<call>:<errno>:<k>]"
		sargs := []string{"-f", "-qq", "-o", "/dev/null"}
		traced := map[string]bool{}
		var injects []string
		for _, one := range strings.Split(c.Fault, "+") {
			f := strings.Split(one, ":")
			traced[f[0]] = true
			injects = append(injects, fmt.Sprintf("inject=%s:error=%s:when=%s", f[0], f[1], f[2]))
		}
		var calls []string
		for k := range traced {
			calls = append(calls, k)
		}
		sort.Strings(calls)
		sargs = append(sargs, "-e", "trace="+strings.Join(calls, ","))
		for _, in := range injects {
			sargs = append(sargs, "-e", in)
		}
		sargs = append(sargs, bin)
		cmd = exec.Command("strace", append(sargs, args...)...)
	} else {
		cmd = exec.Command(bin, args...)
	}
	cmd.Dir = dir
	cmd.Env = append(os.Environ(), "NO_COLOR=1", "TERM=dumb", "HOME="+filepath.Join(dir, "home"), "OUT="+filepath.Join(dir, "home", "OUT"), "gen="+filepath.Join(dir, "home", "gen"))
	var so, se bytes.Buffer
	cmd.Stdout, cmd.Stderr = &so, &se
	done := make(chan error, 1)
	if err := cmd.Start(); err != nil {
		ev.Fatal("start: %v", err)
	}
	go func() { done <- cmd.Wait() }()
	select {
	case err := <-done:
		if ee, ok := err.(*exec.ExitError); ok {
			res.code = ee.ExitCode()
		} else if err != nil {
			res.code = -1
		}
	case <-time.After(120 * time.Second):
		_ = cmd.Process.Kill()
		res.code = -2
	}
	res.stdout, res.stderr = so.String(), se.String()
	res.after = snapshot(dir)
	return res
}

var outNames = []string{"~gen", "~", "~/gen", "$HOME", "${HOME}", "$gen", "%OUT%", "%s", "%d%v", "a b", " lead", "trail ", "*", "OU?", "[OUT]", "{a,b}", "out.d", "é t é", "-dash", "--", "@OUT", "#x", "a:b", "a;b", "a&b", "a|b", "'q'", "\"q\"", "back\\slash", "OUT.", "...", "~gen/~sub"}

// golden bytes of the package for a given name
var golden = map[string]map[string]string{}

func goldenFor(bin, tmp, name string, debug bool, input string) map[string]string {
	key := fmt.Sprintf("%s/%v/%s", name, debug, input)
	if g, ok := golden[key]; ok {
		return g
	}
	c := config{Name: name, Input: input, Pre: "out-empty", Debug: debug}
	res := run(bin, tmp, 999000+len(golden), c)
	g := map[string]string{}
	if res.code == 0 {
		for _, f := range targetFiles {
			b, err := os.ReadFile(filepath.Join(res.pkgDir, f))
			if err == nil {
				g[f] = string(b)
			}
		}
	}
	_ = os.RemoveAll(res.dir)
	golden[key] = g
	return g
}

func judge(r *ev.Run, bin, tmp string, c config, res result) {
	in := map[string]any{"Config": c}
	report := func(format string, a ...any) {
		r.Report("", fmt.Sprintf("[%s] ", c)+fmt.Sprintf(format, a...)+fmt.Sprintf("\nexit=%d stdout=%q stderr=%q", res.code, clip(res.stdout), clip(res.stderr)), in)
	}
	if res.code == -2 {
		report("the tool does not exit within 120 s")
		return
	}
	// 1. nothing that existed is modified, truncated or deleted
	var changed []string
	for p, b := range res.before {
		a, ok := res.after[p]
		if !ok {
			changed = append(changed, p+" (deleted)")
		} else if a != b {
			changed = append(changed, fmt.Sprintf("%s (%v -> %v)", p, b, a))
		}
	}
	sort.Strings(changed)
	if len(changed) > 0 {
		report("entries that existed before the run were modified: %v", changed)
	}
	var created []string
	for p := range res.after {
		if _, ok := res.before[p]; !ok {
			created = append(created, p)
		}
	}
	sort.Strings(created)
	name := c.Name
	if name == "" {
		name = "demo"
	}
	announced := strings.Contains(res.stdout+res.stderr, "Successful")
	// is the package complete?
	complete := true
	goldenInput := "valid"
	if valid(c.Input) {
		goldenInput = c.Input
	}
	want := goldenFor(bin, tmp, name, c.Debug, goldenInput)
	for _, f := range targetFiles {
		b, err := os.ReadFile(filepath.Join(res.pkgDir, f))
		if err != nil || len(want) == 0 || string(b) != want[f] {
			complete = false
		}
		// -name honoured: every file of the package says `package <name>`, spelled as it was given (the golden bytes
		// come from the tool itself, so this is checked against the name)
		if err == nil {
			first, _, _ := strings.Cut(string(b), "\n")
			if i := strings.Index(string(b), "\npackage "); !strings.HasPrefix(first, "package ") && i >= 0 {
				first, _, _ = strings.Cut(string(b)[i+1:], "\n")
			}
			if strings.TrimSpace(first) != "package "+name {
				complete = false
			}
		}
	}
	_, pkgExisted := res.before[relTo(res.dir, res.pkgDir)]
	if pkgExisted {
		complete = false // a pre-existing location is never "written by this run"
	}
	if c.Fault == "" {
		expectSuccess := valid(c.Input) && usable(name) && !c.Help && !c.Ver && !pkgExisted &&
			c.Pre != "out-missing" && c.Pre != "out-is-file"
		switch {
		case c.Help || c.Ver:
			if res.code != 0 {
				report("-help/-version exits with status %d", res.code)
			}
			if len(created) > 0 {
				report("-help/-version created %v", created)
			}
			return
		case grey(name):
			// either refused or generated; the coupling of status, announcement and completeness is checked below
			if res.code == 0 && (!announced || !complete) {
				report("exit status 0 for the predeclared name %q but success announced: %v, package complete: %v", name, announced, complete)
			}
		case expectSuccess && (res.code != 0 || !announced || !complete):
			report("an acceptable specification with a usable name and a free location must succeed: exit status %d, success announced: %v, package complete: %v (created: %v)", res.code, announced, complete, created)
		case !expectSuccess && (res.code == 0 || announced):
			report("the run cannot have produced a complete package, yet exit status is %d and success announced: %v (created: %v)", res.code, announced, created)
		}
		if !usable(name) && len(created) > 0 {
			report("the name %q is not a usable Go package identifier but the run created %v", name, created)
		}
		if (res.code == 0) != announced {
			report("exit status %d but success announced: %v", res.code, announced)
		}
	}
	// in every run, faults included
	if res.code == 0 && !c.Help && !c.Ver && !complete {
		report("exit status 0 although the package under %s is not completely written (created: %v)", relTo(res.dir, res.pkgDir), created)
	}
	if res.code == 0 {
		// -out and -name honoured: everything created lies under the package directory
		pk := relTo(res.dir, res.pkgDir)
		for _, p := range created {
			if p != pk && !strings.HasPrefix(p, pk+string(filepath.Separator)) {
				report("created %s outside the package directory %s", p, pk)
			}
		}
	}
}

func relTo(root, p string) string {
	rel, _ := filepath.Rel(root, p)
	return rel
}

func clip(s string) string {
	if len(s) > 300 {
		return s[:300] + "…"
	}
	return s
}

// counts how often the fault-free run performs each system call
func syscallCounts(bin, tmp string, c config) map[string]int {
	dir := filepath.Join(tmp, "count")
	_ = os.RemoveAll(dir)
	args, _ := setup(dir, c)
	log := filepath.Join(tmp, "count.log")
	cmd := exec.Command("strace", append([]string{"-f", "-qq", "-o", log, "-e", "trace=mkdirat,openat,write,newfstatat,read", bin}, args...)...)
	cmd.Dir = dir
	cmd.Env = append(os.Environ(), "NO_COLOR=1", "TERM=dumb")
	_ = cmd.Run()
	out := map[string]int{}
	b, _ := os.ReadFile(log)
	for _, line := range strings.Split(string(b), "\n") {
		f := strings.Fields(line)
		if len(f) < 2 {
			continue
		}
		if i := strings.IndexByte(f[1], '('); i > 0 {
			out[f[1][:i]]++
		}
	}
	_ = os.RemoveAll(dir)
	return out
}

func main() {
	r := ev.Start("C16", "fault_enumeration")
	tmp, err := os.MkdirTemp("", "verif-c16-")
	if err != nil {
		ev.Fatal("mktemp: %v", err)
	}
	defer os.RemoveAll(tmp)
	// the binary is built once per process tree: workers reuse the parent's
	bin := os.Getenv("VERIF_C16_BIN")
	ownBin := false
	if bin == "" {
		bdir, err := os.MkdirTemp("", "verif-c16-bin-")
		if err != nil {
			ev.Fatal("mktemp: %v", err)
		}
		bin = filepath.Join(bdir, "emerge")
		build := exec.Command("go", "build", "-o", bin, "./cmd/emerge")
		build.Dir = "/repo"
		if out, err := build.CombinedOutput(); err != nil {
			ev.Fatal("building the CLI failed: %v\n%s", err, out)
		}
		os.Setenv("VERIF_C16_BIN", bin)
		ownBin = true
		defer os.RemoveAll(bdir)
	}
	if r.Replay != "" {
		var in struct{ Config config }
		if err := r.LoadReplay(&in); err != nil {
			ev.Fatal("%v", err)
		}
		res := run(bin, tmp, 1, in.Config)
		fmt.Printf("replay %s: exit=%d\nstdout=%s\nstderr=%s\n", in.Config, res.code, res.stdout, res.stderr)
		judge(r, bin, tmp, in.Config, res)
		os.RemoveAll(tmp)
		if ownBin {
			os.RemoveAll(filepath.Dir(bin))
		}
		r.Finish()
	}
	if r.Fork(16) {
		if ownBin {
			os.RemoveAll(filepath.Dir(bin))
		}
		os.RemoveAll(tmp)
		r.Set("rule", "configurations: name (9 names in the full product, 26 further identifier / non-identifier names (blank-only and blank-padded ones among them) in a reduced one; go/token decides what an identifier is) x input class x pre-state (and five further spellings of -out: relative, ./, with .., trailing slash, as a separate argument; and 32 output directories with unusual but legal names - tilde, dollar, percent, pattern and quote characters, blanks - while HOME and same-named environment variables point at look-alike directories inside the snapshot) of the output location x flag subsets (complete product in thorough; in quick every pair of dimensions is covered); faults: for every successful configuration an error (ENOSPC, EACCES, EIO) injected into the k-th mkdirat / openat / write / newfstatat for every k the fault-free run performs, and EIO into every read of a run on a specification longer than one read (strace inject); non-trivial = every configuration (distinct by configuration)")
		r.Set("evaluations", r.Get("runs"))
		r.Finish()
	}
	r.Set("exhaustive", true)
	n := 0
	do := func(c config) {
		n++
		if !r.MineIdx(n) {
			return
		}
		if r.Expired() {
			r.Set("exhaustive", false)
			return
		}
		res := run(bin, tmp, n, c)
		r.Add("runs", 1)
		if c.Fault != "" {
			r.Add("fault_runs", 1)
		}
		r.Distinct(c.String())
		judge(r, bin, tmp, c, res)
		if n%397 == 0 {
			r.Sample(map[string]any{"config": c.String(), "exit": res.code})
		}
		_ = os.RemoveAll(res.dir)
	}
	quick := r.Quick()
	for ni, name := range names {
		for ii, input := range inputOrder {
			for pi, pre := range preStates {
				for flags := 0; flags < 16; flags++ {
					c := config{Name: name, Input: input, Pre: pre, Debug: flags&1 != 0, Verbose: flags&2 != 0, Help: flags&4 != 0, Ver: flags&8 != 0}
					if quick {
						// quick: all (name, input, pre) triples with no flags; flag subsets spread over the triples; and
						// every flag subset with every input class for the grammar's own name and an override, in two
						// pre-states in which generation can succeed (a flag must not change the outcome for any kind of input)
						if flags != 0 && (ni+ii*3+pi*7+flags)%16 != 0 && !((ni == 0 && pi == 0) || (ni == 1 && pi == 2)) {
							continue
						}
					}
					do(c)
				}
			}
		}
	}
	// the spellings of -out, for every input class and pre-state (names: the grammar's own and an override)
	for _, form := range []string{"rel", "dot", "dotdot", "slash", "sep"} {
		for _, name := range []string{"", "pk"} {
			for _, input := range inputOrder {
				for _, pre := range preStates {
					if pre == "no-out-flag" {
						continue
					}
					do(config{Name: name, Input: input, Pre: pre, OutForm: form})
				}
			}
		}
	}
	// output directories with unusual but legal names: a directory name is taken as it is written - nothing in it is
	// expanded (home directory, environment variables, patterns, format verbs) or trimmed
	for _, on := range outNames {
		for _, name := range []string{"", "pk"} {
			for _, input := range []string{"valid", "semantic", "missing"} {
				for _, pre := range []string{"out-empty", "out-missing", "pkg-empty-dir", "pkg-dir-with-target-files"} {
					do(config{Name: name, Input: input, Pre: pre, OutName: on})
				}
			}
		}
	}
	for _, name := range moreNames {
		for _, input := range []string{"valid", "semantic"} {
			for _, pre := range []string{"out-empty", "pkg-empty-dir", "no-out-flag"} {
				for _, dbg := range []bool{false, true} {
					do(config{Name: name, Input: input, Pre: pre, Debug: dbg})
				}
			}
		}
	}
	// fault sweep over successful configurations
	faultBases := []config{
		{Name: "", Input: "valid", Pre: "out-empty"},
		{Name: "pk", Input: "valid", Pre: "no-out-flag", Debug: true},
	}
	if !quick {
		faultBases = append(faultBases, config{Name: "Größe", Input: "valid", Pre: "out-empty", Verbose: true})
	}
	// a long specification, for the faults on read: a file that turns unreadable half way must not be generated from
	faultBases = append(faultBases, config{Name: "", Input: "valid-long", Pre: "out-empty"})
	for _, base := range faultBases {
		counts := syscallCounts(bin, tmp, base)
		if len(counts) == 0 {
			r.Set("strace_available", false)
			r.Set("exhaustive", false)
			continue
		}
		r.Set("strace_available", true)
		calls := []string{"mkdirat", "openat", "write", "newfstatat"}
		if base.Input == "valid-long" {
			calls = []string{"read"}
		}
		for _, call := range calls {
			for k := 1; k <= counts[call]; k++ {
				errnos := []string{"ENOSPC", "EACCES", "EIO"}
				if quick {
					errnos = errnos[k%3 : k%3+1]
				}
				if call == "read" {
					errnos = []string{"EIO"}
				}
				for _, e := range errnos {
					c := base
					c.Fault = fmt.Sprintf("%s:%s:%d", call, e, k)
					do(c)
				}
			}
		}
	}
	// thorough: every unordered pair of fault points of different kinds for the first base configuration
	if !quick && len(faultBases) > 0 {
		base := faultBases[0]
		counts := syscallCounts(bin, tmp, base)
		type pt struct {
			call string
			k    int
		}
		var pts []pt
		for _, call := range []string{"mkdirat", "openat", "write", "newfstatat"} {
			for k := 1; k <= counts[call]; k++ {
				pts = append(pts, pt{call, k})
			}
		}
		for i := range pts {
			for j := i + 1; j < len(pts); j++ {
				if pts[i].call == pts[j].call {
					continue // strace numbers the calls of one kind jointly: two rules on one call would interfere
				}
				c := base
				c.Fault = fmt.Sprintf("%s:EIO:%d+%s:ENOSPC:%d", pts[i].call, pts[i].k, pts[j].call, pts[j].k)
				do(c)
			}
		}
	}
	r.Assume("the snapshot compares names, types, modes, sizes, SHA-256 and link targets of everything under the scratch directory before and after the run; golden package bytes come from a fault-free run with the same name")
	r.Assume("fault injection uses strace -e inject (ptrace); if unavailable the fault sweep is skipped and exhaustive=false is reported")
	os.RemoveAll(tmp)
	r.Finish()
}
