// C08: the emitted lexer is valid stand-alone Go that encodes exactly the token automaton.
package main

import (
	"bufio"
	"bytes"
	"fmt"
	"sort"
	"strconv"
	"strings"

	"github.com/gardenbed/emerge/internal/ebnf/parser/spec"
	"github.com/gardenbed/emerge/verif/defs"
	"github.com/gardenbed/emerge/verif/emitted"
	"github.com/gardenbed/emerge/verif/ev"
	"github.com/gardenbed/emerge/verif/ref/dfaops"
)

const helperTmpl = `package %s

import (
	"fmt"
	"io"
	"strings"
)

// VerifDump prints the emitted transition function and accepting-state table.
func VerifDump(w io.Writer, runes []rune, maxState int) {
	for s := -2; s <= maxState; s++ {
		in, err := newInput("f", strings.NewReader("x"), 4)
		if err != nil {
			fmt.Fprintf(w, "E %%d newInput: %%v\n", s, err)
			continue
		}
		l := &Lexer{in: in}
		fmt.Fprintf(w, "F %%d %%q\n", s, string(l.evalDFA(s).Terminal))
		for _, r := range runes {
			if n := advanceDFA(s, r); n != errorState {
				fmt.Fprintf(w, "T %%d %%d %%d\n", s, r, n)
			}
		}
	}
}
`

func mainSrc(names []string) string {
	var b strings.Builder
	b.WriteString("package main\n\nimport (\n\t\"bufio\"\n\t\"fmt\"\n\t\"os\"\n\t\"strconv\"\n\t\"strings\"\n")
	for _, n := range names {
		fmt.Fprintf(&b, "\t%q\n", "emitted/"+n)
	}
	b.WriteString(")\n\nfunc main() {\n\tout := bufio.NewWriter(os.Stdout)\n\tdefer out.Flush()\n\tsc := bufio.NewScanner(os.Stdin)\n\tsc.Buffer(make([]byte, 1<<20), 1<<24)\n\tfor sc.Scan() {\n\t\tf := strings.Fields(sc.Text())\n\t\tmax, _ := strconv.Atoi(f[1])\n\t\tvar runes []rune\n\t\tfor _, x := range f[2:] {\n\t\t\tv, _ := strconv.Atoi(x)\n\t\t\trunes = append(runes, rune(v))\n\t\t}\n\t\tfmt.Fprintf(out, \"P %s\\n\", f[0])\n\t\tswitch f[0] {\n")
	for _, n := range names {
		fmt.Fprintf(&b, "\t\tcase %q:\n\t\t\t%s.VerifDump(out, runes, max)\n", n, n)
	}
	b.WriteString("\t\t}\n\t}\n}\n")
	return b.String()
}

type prog struct {
	*emitted.Program
	ds     []defs.Def
	dfa    *dfaops.DFA
	owner  map[int]string
	runes  []rune
	maxSt  int
	dfaErr string
}

func probes(d *dfaops.DFA) []rune {
	set := map[rune]bool{0: true, '\'': true, '\\': true, '\n': true, '"': true, 0xE9: true, 0x1F600: true, 0x7F: true, 1: true}
	for _, r := range d.Symbols() {
		set[r] = true
		set[r-1] = true
		set[r+1] = true
	}
	out := []rune{}
	for r := range set {
		if r >= 0 && r <= 0x10FFFF {
			out = append(out, r)
		}
	}
	sort.Slice(out, func(i, j int) bool { return out[i] < out[j] })
	return out
}

func main() {
	r := ev.Start("C08", "translation_validation")
	sets := defs.Sets()
	if !r.Quick() {
		sets = append(sets, defs.MoreSets()...)
	}
	var progs []*prog
	var eprogs []*emitted.Program
	// every definition set is generated twice: plainly and with Params.Debug (the -debug flag)
	for i2 := 0; i2 < 2*len(sets); i2++ {
		i, ds := i2/2, sets[i2/2]
		name := fmt.Sprintf("p%03d", i)
		if i2%2 == 1 {
			name += "d"
		}
		text := defs.SpecText(name, ds)
		p := &prog{Program: &emitted.Program{Name: name, SpecText: text, Debug: i2%2 == 1}, ds: ds}
		var s *spec.Spec
		var err error
		var pan any
		func() {
			defer func() { pan = recover() }()
			s, err = spec.Parse("f.g", strings.NewReader(text))
		}()
		if pan != nil || err != nil {
			r.Report("", fmt.Sprintf("harness specification rejected: %v %v\n%s", err, pan, text), map[string]any{"Program": i})
			continue
		}
		p.Spec = s
		func() {
			defer func() {
				if x := recover(); x != nil {
					p.dfaErr = fmt.Sprint(x)
				}
			}()
			d, tm, err := s.DFA()
			if err != nil {
				p.dfaErr = err.Error()
				return
			}
			p.dfa = dfaops.FromDFA(d)
			p.owner = map[int]string{}
			for t, states := range tm {
				for _, st := range states {
					p.owner[int(st)] = string(t)
				}
			}
			p.runes = probes(p.dfa)
			for _, st := range p.dfa.States() {
				if st > p.maxSt {
					p.maxSt = st
				}
			}
		}()
		if p.dfaErr != "" {
			r.Add("programs_with_definition_conflict_skipped", 1)
			continue
		}
		progs = append(progs, p)
		eprogs = append(eprogs, p.Program)
	}
	batch, err := emitted.Emit(eprogs)
	if batch != nil {
		r.OnFinish(batch.Close)
	}
	if err != nil {
		ev.Fatal("emit: %v", err)
	}
	want := []string{"errors.go", "input.go", "lexer.go", "parser.go", "stack.go", "types.go"}
	var okNames []string
	for i, p := range progs {
		in := map[string]any{"Program": i, "Spec": p.SpecText}
		r.Add("programs", 1)
		switch {
		case p.GenErr != "":
			r.Report("", fmt.Sprintf("golang.Generate fails for an accepted specification: %s\n%s", p.GenErr, p.SpecText), in)
		case len(p.Imports) > 0:
			r.Report("", fmt.Sprintf("the emitted package imports non-standard packages %v\n%s", p.Imports, p.SpecText), in)
		case len(p.BuildErr) > 0:
			r.Report("", fmt.Sprintf("the emitted package is not valid Go:\n%s\n--- specification ---\n%s", strings.Join(p.BuildErr, "\n"), p.SpecText), in)
		case strings.Join(p.Files, " ") != strings.Join(want, " "):
			r.Report("", fmt.Sprintf("emitted files are %v, expected %v", p.Files, want), in)
		default:
			okNames = append(okNames, p.Name)
		}
	}
	r.Set("programs_compiled", len(okNames))
	if len(okNames) > 0 {
		bin, err := batch.Driver(func(p *emitted.Program) string { return fmt.Sprintf(helperTmpl, p.Name) }, mainSrc(okNames))
		if err != nil {
			r.Report("", fmt.Sprintf("the emitted packages compile alone but not together with an in-package caller of advanceDFA/evalDFA/newInput: %v", err), map[string]any{"Program": -1})
		} else {
			var stdin bytes.Buffer
			for _, p := range progs {
				if !p.OK() {
					continue
				}
				fmt.Fprintf(&stdin, "%s %d", p.Name, p.maxSt+2)
				for _, c := range p.runes {
					fmt.Fprintf(&stdin, " %d", c)
				}
				stdin.WriteString("\n")
			}
			out, err := emitted.Run(bin, stdin.Bytes())
			if err != nil {
				r.Report("", fmt.Sprintf("running the emitted transition functions failed: %v", err), map[string]any{"Program": -1})
			}
			compare(r, progs, out)
		}
	}
	r.Set("rule", "one emitted package per definition set (keywords vs identifiers, prefixes, quotes/backslashes/control/non-ASCII characters, Go keywords as literals, a terminal owning no state, predefined patterns); every package is compiled with go build and go vet in a module without dependencies, then its advanceDFA/evalDFA are executed for every state in [-2, max+2] x every symbol of the automaton plus probes and compared with Spec.DFA() computed in-process")
	r.Set("disagreements_checked", r.Get("cells_compared"))
	r.Set("evaluations", r.Get("programs"))
	r.Set("exhaustive", true)
	r.Assume("go build / go vet of the pinned toolchain decide validity; the in-process Spec.DFA() is the automaton emerge computed (same inputs, deterministic construction)")
	r.Finish()
}

func compare(r *ev.Run, progs []*prog, out []byte) {
	trans := map[string]map[[2]int]int{}
	finals := map[string]map[int]string{}
	cur := ""
	sc := bufio.NewScanner(bytes.NewReader(out))
	sc.Buffer(make([]byte, 1<<20), 1<<24)
	for sc.Scan() {
		f := strings.SplitN(sc.Text(), " ", 3)
		switch f[0] {
		case "P":
			cur = f[1]
			trans[cur] = map[[2]int]int{}
			finals[cur] = map[int]string{}
		case "F":
			s, _ := strconv.Atoi(f[1])
			t, _ := strconv.Unquote(f[2])
			finals[cur][s] = t
		case "T":
			g := strings.Fields(f[2])
			s, _ := strconv.Atoi(f[1])
			c, _ := strconv.Atoi(g[0])
			n, _ := strconv.Atoi(g[1])
			trans[cur][[2]int{s, c}] = n
		}
	}
	for i, p := range progs {
		if !p.OK() {
			continue
		}
		in := map[string]any{"Program": i, "Spec": p.SpecText}
		tr, ok := trans[p.Name]
		if !ok {
			r.Report("", "no dump for "+p.Name, in)
			continue
		}
		r.Distinct(p.Name)
		r.Sample(map[string]any{"program": p.Name, "specification": p.SpecText, "states": p.maxSt + 1, "symbols_probed": len(p.runes)})
		// bisimulation from the start states, then emptiness outside its image
		e2c := map[int]int{0: p.dfa.Start()}
		c2e := map[int]int{p.dfa.Start(): 0}
		queue := []int{0}
		bad := 0
		fail := func(msg string) {
			bad++
			if bad <= 3 {
				r.Report("", fmt.Sprintf("%s: %s\n%s", p.Name, msg, p.SpecText), in)
			}
		}
		for len(queue) > 0 {
			es := queue[0]
			queue = queue[1:]
			cs := e2c[es]
			wantT, acc := p.owner[cs]
			gotT := finals[p.Name][es]
			if !acc {
				wantT = "ERR"
			}
			if gotT != wantT {
				fail(fmt.Sprintf("emitted state %d evaluates to %q, the automaton's state %d belongs to %q", es, gotT, cs, wantT))
			}
			for _, c := range p.runes {
				r.Add("cells_compared", 1)
				en, eok := tr[[2]int{es, int(c)}]
				cn := p.dfa.Step(cs, c)
				if eok != (cn != dfaops.Dead) {
					fail(fmt.Sprintf("on %q (U+%04X) from emitted state %d: emitted next=%v(%d), automaton next=%d", string(c), c, es, eok, en, cn))
					continue
				}
				if !eok {
					continue
				}
				if old, seen := e2c[en]; seen {
					if old != cn {
						fail(fmt.Sprintf("emitted state %d corresponds to automaton states %d and %d", en, old, cn))
					}
					continue
				}
				if old, seen := c2e[cn]; seen && old != en {
					fail(fmt.Sprintf("automaton state %d corresponds to emitted states %d and %d", cn, old, en))
					continue
				}
				e2c[en], c2e[cn] = cn, en
				queue = append(queue, en)
			}
		}
		for s := -2; s <= p.maxSt+2; s++ {
			if _, reach := e2c[s]; reach {
				continue
			}
			if t := finals[p.Name][s]; t != "ERR" {
				fail(fmt.Sprintf("state %d is not a state of the automaton but the emitted table attributes it to %q", s, t))
			}
			for _, c := range p.runes {
				r.Add("cells_compared", 1)
				if n, ok := tr[[2]int{s, int(c)}]; ok {
					fail(fmt.Sprintf("state %d is not a state of the automaton but the emitted function moves from it on %q to %d", s, string(c), n))
					break
				}
			}
		}
		if len(e2c) != len(p.dfa.States()) {
			fail(fmt.Sprintf("%d of the automaton's %d states are encoded in the emitted function", len(e2c), len(p.dfa.States())))
		}
	}
}
