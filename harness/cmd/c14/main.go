// C14: no input crashes or hangs emerge; failures are error values and clean non-zero exits.
package main

import (
	"bytes"
	"fmt"
	"os"
	"os/exec"
	"path/filepath"
	"strings"
	"sync/atomic"
	"time"

	"github.com/gardenbed/emerge/internal/ebnf/parser"
	east "github.com/gardenbed/emerge/internal/ebnf/parser/ast"
	"github.com/gardenbed/emerge/internal/ebnf/parser/spec"
	rast "github.com/gardenbed/emerge/internal/regex/parser/ast"
	"github.com/gardenbed/emerge/internal/regex/parser/nfa"
	"github.com/gardenbed/emerge/verif/defs"
	"github.com/gardenbed/emerge/verif/ev"
	"github.com/gardenbed/emerge/verif/ref/cliref"
	"github.com/gardenbed/emerge/verif/ref/regexref"
)

type running struct {
	what  string
	since time.Time
}

var current atomic.Pointer[running]

// guard runs f, converting a panic into a description.
func guard(what string, f func() string) (problem string) {
	current.Store(&running{what, time.Now()})
	defer current.Store(nil)
	defer func() {
		if p := recover(); p != nil {
			problem = fmt.Sprintf("panics: %v", p)
		}
	}()
	return f()
}

func isNil(v any) bool {
	return v == nil || fmt.Sprintf("%v", v) == "<nil>"
}

func checkPattern(r *ev.Run, p string) {
	in := map[string]any{"Kind": "pattern", "Text": p}
	r.Add("patterns", 1)
	for _, e := range []struct {
		name string
		f    func() string
	}{
		{"nfa.Parse", func() string {
			n, err := nfa.Parse(p)
			switch {
			case err == nil && n == nil:
				return "returns (nil, nil)"
			case err != nil && n != nil:
				return "returns a result together with an error"
			}
			return ""
		}},
		{"Spec.DFA (token pipeline)", func() string {
			// the automaton pipeline is polynomial in the number of symbols: patterns spelling code points
			// beyond U+FFFF (ranges of up to a million symbols) are left to the parse-only entry points
			if strings.Contains(p, `\x`) && len(p) > 8 {
				return ""
			}
			s := &spec.Spec{Definitions: []*spec.TerminalDef{{Terminal: "TK", Value: p, IsRegex: true}}}
			d, m, err := s.DFA()
			if err == nil && (d == nil || m == nil) {
				return "returns nil results without an error"
			}
			return ""
		}},
		{"(regex) ast.Parse", func() string {
			a, err := rast.Parse(p)
			switch {
			case err == nil && a == nil:
				return "returns (nil, nil)"
			case err != nil && a != nil:
				return "returns a result together with an error"
			}
			return ""
		}},
	} {
		if problem := guard(e.name+" on pattern "+fmt.Sprintf("%q", p), e.f); problem != "" {
			r.Report("", fmt.Sprintf("%s(%q) %s", e.name, p, problem), in)
		}
	}
}

func checkSpecText(r *ev.Run, text string) {
	in := map[string]any{"Kind": "spec", "Text": text}
	r.Add("spec_texts", 1)
	var accepted *spec.Spec
	for _, e := range []struct {
		name string
		f    func() string
	}{
		{"spec.Parse", func() string {
			s, err := spec.Parse("f.g", strings.NewReader(text))
			switch {
			case err == nil && s == nil:
				return "returns (nil, nil)"
			case err != nil && s != nil:
				return "returns a result together with an error"
			case err == nil:
				r.Add("accepted_specs", 1)
				accepted = s
			}
			return ""
		}},
		{"Spec.DFA", func() string {
			// table and automaton construction are expensive for big grammars: specifications up to 600 bytes
			if accepted == nil || len(text) > 600 {
				return ""
			}
			if d, m, err := accepted.DFA(); err == nil && (d == nil || m == nil) {
				return "returns nil results without an error"
			}
			return ""
		}},
		{"Spec.LALRParsingTable", func() string {
			if accepted == nil || len(text) > 600 {
				return ""
			}
			if t, err := accepted.LALRParsingTable(); err == nil && t == nil {
				return "returns (nil, nil)"
			}
			return ""
		}},
		{"(ebnf) ast.Parse", func() string {
			g, err := east.Parse("f.g", strings.NewReader(text))
			switch {
			case err == nil && g == nil:
				return "returns (nil, nil)"
			case err != nil && g != nil:
				return "returns a result together with an error"
			}
			return ""
		}},
		{"ParseAndBuildAST", func() string {
			p, err := parser.New("f.g", strings.NewReader(text))
			if err != nil {
				if p != nil {
					return "parser.New returns a result together with an error"
				}
				return ""
			}
			n, err := p.ParseAndBuildAST()
			switch {
			case err == nil && isNil(n):
				return "returns (nil, nil)"
			case err != nil && !isNil(n):
				return "returns a result together with an error"
			}
			return ""
		}},
	} {
		if problem := guard(e.name+" on "+fmt.Sprintf("%q", text), e.f); problem != "" {
			r.Report("", fmt.Sprintf("%s on %q %s", e.name, text, problem), in)
		}
	}
}

var sigma = []rune(`\|.?*+()[]{}$^-,:a1xAspL`)

var specBytes = []string{"g", "A", "a", "=", ";", "\"", "/", "*", "\\", "$", "@", "{", " ", "\n", "\x00", "\x80", "\xC3", "\xE2", "\xFF"}

var kindText = map[string]string{"IDENT": "ab", "TOKEN": "AB", "STRING": `"s"`, "REGEX": "/r/", "PREDEF": "$ID"}
var kinds = []string{"=", ";", "|", "(", ")", "[", "]", "{", "}", "{{", "}}", "<", ">", "grammar", "@left", "@right", "@none", "IDENT", "TOKEN", "STRING", "REGEX", "PREDEF"}

var wholeSpecs = []string{
	"grammar u ; start = e ; e = e o e ; o = \"+\" ;\n",
	"grammar u ; start = e ; @left < e = e o e > ; o = \"+\" | e ;\n",
	"grammar calc ; NUM = /[0-9]+/ ID = $ID ; KW = \"let\" @left \"+\" \"-\" ; @left \"*\" @right < neg = e > @none \"=\" ; start = { stmt } ; stmt = KW ID \"=\" e \";\" | e \";\" ; e = e \"+\" e | e \"-\" e | e \"*\" e | neg | \"(\" e \")\" | NUM | ID ; neg = e ;\n",
	"grammar ops ; SL = /a\\/b/ ; QQ = \"a\\\"b\" ; start = [ xs ] {{ ys }} ( zs | SL | ) ; xs = { \"a\" \"b\" } ; ys = QQ | ; zs = ; \n",
	"grammar h ; // c\n@left < e = e e > < e = e f e > ; /* c */ @right \"^\" ; start = e ; e = e e | e f e | \"^\" | \"a\" ; f = ; ",
}

func main() {
	r := ev.Start("C14", "exploration")
	if r.Replay != "" {
		var in struct {
			Kind string
			Text string
			Args []string
		}
		if err := r.LoadReplay(&in); err != nil {
			ev.Fatal("%v", err)
		}
		switch in.Kind {
		case "pattern":
			checkPattern(r, in.Text)
		case "spec":
			checkSpecText(r, in.Text)
		case "cli":
			cli(r, [][]string{in.Args}, map[int]string{0: in.Text})
		}
		r.Finish()
	}
	// watchdog: a call that does not return within 120 s is a hang
	go func() {
		for {
			time.Sleep(2 * time.Second)
			if c := current.Load(); c != nil && time.Since(c.since) > 120*time.Second {
				r.Report("", "does not return within 120 s: "+c.what, map[string]any{"Kind": "hang", "Text": c.what})
				r.Set("exhaustive", false)
				r.Finish()
			}
		}
	}()
	if r.Fork(16) {
		r.Set("rule", "patterns: every string up to the length bound over "+string(sigma)+", \\x escapes at the extremes alone/in brackets/in ranges/negated, every Unicode category inside and outside brackets, 9 special characters inserted at / substituted for every position of 15 constructs and every construct cut off at every position; specifications: every token sequence up to the length bound over the 22 kinds, every byte string up to the length bound over 19 bytes (incl. NUL and invalid UTF-8), every prefix and every single-byte deletion of three whole specifications and of the repository fixtures; command lines: every argument list up to the length bound over 16 arguments run against the real binary; non-trivial = every input (distinct by text)")
		r.Set("evaluations", r.Get("patterns")+r.Get("spec_texts")+r.Get("command_lines"))
		r.Finish()
	}
	r.Set("exhaustive", true)
	n := 0
	mine := func() bool {
		n++
		if !r.MineIdx(n) {
			return false
		}
		if n%4096 == 0 && r.Expired() {
			r.Set("exhaustive", false)
		}
		return !r.Expired()
	}
	quick := r.Quick()
	// ---- patterns
	maxP := 3
	if !quick {
		maxP = 4
	}
	buf := []rune{}
	var genP func(k int)
	genP = func(k int) {
		if mine() {
			checkPattern(r, string(buf))
			r.Distinct("p:" + string(buf))
		}
		if k == 0 {
			return
		}
		for _, c := range sigma {
			buf = append(buf, c)
			genP(k - 1)
			buf = buf[:len(buf)-1]
		}
	}
	genP(maxP)
	for _, h := range []string{`\x00`, `\x01`, `\x7F`, `\x80`, `\xFF`, `\x0000`, `\x007F`, `\x0080`, `\x0100`, `\xFFFF`, `\x010000`, `\x10FFFF`, `\x0010FFFF`, `\x110000`, `\x00110000`, `\xFFFFFFFF`, `\x7FFFFFFF`, `\x80000000`, `\xD800`, `\xDFFF`} {
		for _, ctx := range []string{"%s", "[%s]", "[^%s]", "[a-%s]", "[%s-%s]", "%s+", "a%sb", "[%s-a]", "(%s)*", "%s{2,3}"} {
			p := strings.ReplaceAll(ctx, "%s", h)
			if mine() {
				checkPattern(r, p)
				r.Distinct("p:" + p)
			}
		}
	}
	small := map[string]bool{"Letter": true, "L": true, "Lu": true, "Ll": true}
	for _, cat := range regexref.UnicodeCategories {
		for _, ctx := range []string{`\p{%s}`, `\P{%s}`, `[\p{%s}]`, `[^\p{%s}]`, `[\P{%s}a]`, `\p{%s}+x`, `[a\p{%s}-z]`} {
			// a class of tens of thousands of characters under a quantifier costs the followpos route quadratic
			// memory (a cost, not a termination question): quantified contexts only for the ASCII-backed categories
			if strings.Contains(ctx, "+") && !small[cat] && !strings.HasPrefix(cat, "M") && !strings.HasPrefix(cat, "N") && !strings.HasPrefix(cat, "P") && !strings.HasPrefix(cat, "S") && !strings.HasPrefix(cat, "Z") && cat != "Lt" && cat != "Lm" && cat != "Lo" {
				continue
			}
			p := strings.ReplaceAll(ctx, "%s", cat)
			if mine() {
				checkPattern(r, p)
				r.Distinct("p:" + p)
			}
		}
	}
	for _, p := range []string{"", " ", "\x00", "é", "😀", "\xff", "a\x00b", "[\x00]", "[é]", "[😀-😁]", "(", ")", "[", "]", "{", "}", "a{99999999999999999999}", "a{1,99999999999}", strings.Repeat("(", 2000), strings.Repeat("a", 60), strings.Repeat("a", 200), strings.Repeat("(a", 300) + strings.Repeat(")", 300), strings.Repeat("a?", 40), "a{64}", "a{1000}", "a{1001}", "(a{8}){8}", "[a-z]{70}"} {
		if mine() {
			checkPattern(r, p)
			r.Distinct("p:" + p)
		}
	}
	// every special character (DEL, C1, non-ASCII of 2-4 bytes, an invalid byte, NUL, a control character) inserted at and
	// substituted for every position of every kind of construct, and every construct cut off at every position
	templates := []string{`\p{Lu}`, `\P{Greek}x`, `[a-z]`, `[^a-z0]`, `a{1,2}`, `a{2,}`, `\x41`, `\x0041b`, `[[:alpha:]]x`, `(a|b)*`, `a+?`, `\.`, `[\]]`, `^ab$`, `[a\p{L}-z]`}
	specialsP := []string{"\x7f", "\u0080", "é", "中", "😀", "\xff", "\x00", "\x1b", "\ufffd"}
	for _, tp := range templates {
		rs := []rune(tp)
		for i := 0; i <= len(rs); i++ {
			if mine() {
				checkPattern(r, string(rs[:i])) // cut off
			}
			for _, sp := range specialsP {
				if mine() {
					checkPattern(r, string(rs[:i])+sp+string(rs[i:]))
				}
				if i < len(rs) && mine() {
					checkPattern(r, string(rs[:i])+sp+string(rs[i+1:]))
				}
			}
		}
	}
	// ---- specifications: token sequences
	maxT := 3
	if !quick {
		maxT = 4
	}
	var seq []string
	var genT func(k int)
	genT = func(k int) {
		if mine() {
			words := make([]string, len(seq))
			for i, kd := range seq {
				words[i] = kd
				if t, ok := kindText[kd]; ok {
					words[i] = t
				}
			}
			for _, text := range []string{strings.Join(words, " "), "grammar g ; " + strings.Join(words, " ") + "\n"} {
				checkSpecText(r, text)
				r.Distinct("s:" + text)
			}
		}
		if k == 0 {
			return
		}
		for _, kd := range kinds {
			seq = append(seq, kd)
			genT(k - 1)
			seq = seq[:len(seq)-1]
		}
	}
	genT(maxT)
	// ---- specifications: byte strings
	maxB := 3
	if !quick {
		maxB = 4
	}
	var bs []byte
	var genB func(k int)
	genB = func(k int) {
		if mine() {
			checkSpecText(r, string(bs))
			r.Distinct("b:" + string(bs))
		}
		if k == 0 {
			return
		}
		for _, b := range specBytes {
			bs = append(bs, b...)
			genB(k - 1)
			bs = bs[:len(bs)-len(b)]
		}
	}
	genB(maxB)
	// ---- well-formed-looking specifications that reach the error branches behind the parser (definition conflicts,
	// equal values, position-less implicit definitions, handles of every kind, rules without productions): every pair
	// and triple of declaration forms over two texts, used in one start rule
	forms := []func(name, text string) (decl, use string){
		func(n, t string) (string, string) { return "", `"` + t + `"` },                        // implicit literal
		func(n, t string) (string, string) { return "", `"\` + t + `"` },                       // implicit literal, needless escape
		func(n, t string) (string, string) { return n + ` = "` + t + `" ;`, n },                // named literal
		func(n, t string) (string, string) { return n + ` = "\` + t + `" ;`, n },               // named literal, needless escape
		func(n, t string) (string, string) { return n + ` = /\` + t + `/ ;`, n },               // named pattern (escaped)
		func(n, t string) (string, string) { return n + ` = /[\` + t + `]/ ;`, n },             // named pattern, class
		func(n, t string) (string, string) { return n + ` = /(\` + t + `)*/ ;`, n },            // named pattern, nullable
		func(n, t string) (string, string) { return n + ` = $ID ;`, n },                        // predefined
		func(n, t string) (string, string) { return "", n },                                    // used, never defined
		func(n, t string) (string, string) { return "@left " + n + ` "` + t + `" ;`, n },       // handle only
		func(n, t string) (string, string) { return "@none <r" + t[len(t)-1:] + " = > ;", "" }, // rule handle of a rule that does not exist
	}
	names := []string{"AA", "BB", "CC"}
	var genF func(k int, decls, uses []string)
	genF = func(k int, decls, uses []string) {
		if len(decls) > 0 && mine() {
			text := "grammar g ;\n" + strings.Join(decls, "\n") + "\nstart = " + strings.Join(uses, " ") + " ;\n"
			checkSpecText(r, text)
			r.Distinct("f:" + text)
			r.Add("specs_definition_forms", 1)
		}
		if k == len(names) || (quick && k == 2) {
			return
		}
		for _, t := range []string{"+", "a"} {
			for _, f := range forms {
				d, u := f(names[k], t)
				genF(k+1, append(append([]string{}, decls...), d), append(append([]string{}, uses...), u))
			}
		}
	}
	genF(0, nil, nil)
	// ---- truncations and single-byte deletions
	texts := append([]string{}, wholeSpecs...)
	if files, _ := filepath.Glob("/repo/internal/ebnf/fixture/*.grammar"); len(files) > 0 {
		for _, f := range files {
			if b, err := os.ReadFile(f); err == nil && len(b) < 6000 {
				texts = append(texts, string(b))
			}
		}
	}
	for _, t := range texts {
		for i := 0; i <= len(t); i++ {
			if mine() {
				checkSpecText(r, t[:i])
				r.Distinct("t:" + t[:i])
			}
			if i < len(t) && (!quick || i%3 == 0) && mine() {
				checkSpecText(r, t[:i]+t[i+1:])
			}
		}
	}
	// ---- command lines against the real binary (sharded)
	var lines [][]string
	maxA := 2
	if !quick {
		maxA = 3
	}
	var cur []string
	var genA func(k int)
	genA = func(k int) {
		if len(cur) > 0 || k == maxA {
			if mine() {
				lines = append(lines, append([]string{}, cur...))
			}
		}
		if k == 0 {
			return
		}
		for _, a := range cliArgs {
			cur = append(cur, a)
			genA(k - 1)
			cur = cur[:len(cur)-1]
		}
	}
	genA(maxA)
	if !quick {
		// four arguments over the arguments that interact (flags with values, help/version, files)
		all := cliArgs
		cliArgs = []string{"-out=OUT", "-out", "-name=pkg", "-help", "-version", "-bogus", "valid.grammar", "invalid.grammar", "adir"}
		maxA = 4
		var gen4 func(k int)
		gen4 = func(k int) {
			if k == 0 {
				if mine() {
					lines = append(lines, append([]string{}, cur...))
				}
				return
			}
			for _, a := range cliArgs {
				cur = append(cur, a)
				gen4(k - 1)
				cur = cur[:len(cur)-1]
			}
		}
		gen4(4)
		cliArgs = all
	}
	// generation of every specification of the shared definition sets (terminals owning no state, literals that need
	// escaping, multi-line tokens, comment delimiters ...), plain and with -debug: no trace, status 0 and the announcement
	specFor := map[int]string{}
	for si, ds := range defs.Sets() {
		for _, extra := range [][]string{{}, {"-debug"}, {"-verbose"}} {
			if !mine() {
				continue
			}
			specFor[len(lines)] = defs.SpecText("demo", ds)
			lines = append(lines, append(append([]string{"-out=OUT"}, extra...), "valid.grammar"))
			_ = si
		}
	}
	cli(r, lines, specFor)
	r.Assume("a panic is caught by recover in the calling goroutine; a call that does not return within 120 s is reported as a hang by a watchdog; the CLI is the binary built from /repo/cmd/emerge at the start of the run")
	r.Finish()
}

var cliArgs = []string{"-out=OUT", "-out", "-name=pkg", "-name=", "-debug", "-verbose", "-help", "-h", "-version", "-bogus", "--", "valid.grammar", "invalid.grammar", "missing.grammar", "adir", "valid.grammar/x", "-out=valid.grammar", "-name=if",
	"-", "-x.grammar", "--name", "-debug=maybe", "-help=false", "-=x", "---", "-name=int",
	// output locations on which the file system answers with something other than "does not exist": a symbolic link
	// pointing at itself, a name of 300 bytes, a path below a regular file
	"-out=loop", "-out=loop/sub", "-out=" + longName, "-out=invalid.grammar/below"}

var longName = strings.Repeat("n", 300)

// cli runs the real binary on every command line; specFor (may be nil) gives the text of valid.grammar for line i.
func cli(r *ev.Run, lines [][]string, specFor map[int]string) {
	if len(lines) == 0 {
		return
	}
	tmp, err := os.MkdirTemp("", "verif-c14-")
	if err != nil {
		ev.Fatal("mktemp: %v", err)
	}
	defer os.RemoveAll(tmp)
	bin := filepath.Join(tmp, "emerge")
	build := exec.Command("go", "build", "-o", bin, "./cmd/emerge")
	build.Dir = "/repo"
	if out, err := build.CombinedOutput(); err != nil {
		ev.Fatal("building the CLI failed: %v\n%s", err, out)
	}
	for i, args := range lines {
		if r.Expired() {
			r.Set("exhaustive", false)
			break
		}
		dir := filepath.Join(tmp, fmt.Sprintf("run%d", i))
		_ = os.MkdirAll(filepath.Join(dir, "OUT"), 0o755)
		_ = os.MkdirAll(filepath.Join(dir, "adir"), 0o755)
		_ = os.Symlink("loop", filepath.Join(dir, "loop"))
		validText := "grammar demo ;\nNUM = /[0-9]+/ ;\nstart = NUM \"+\" NUM ;\n"
		if t, ok := specFor[i]; ok {
			validText = t
		}
		_ = os.WriteFile(filepath.Join(dir, "valid.grammar"), []byte(validText), 0o644)
		_ = os.WriteFile(filepath.Join(dir, "invalid.grammar"), []byte("grammar demo ;\nstart = = ;\n"), 0o644)
		// what the documented command line asks for (reference model of the flag syntax)
		model := cliref.Parse(args)
		expect := "fail" // "ok-generate", "ok-info", "fail", "either"
		switch {
		case model.FlagError:
		case model.Help || model.Version:
			expect = "ok-info"
		case !model.HasFile:
		case model.File == "valid.grammar":
			name := model.Name
			if name == "" {
				name = "demo"
			}
			out := model.Out
			if out == "" {
				out = "."
			}
			st, err := os.Stat(filepath.Join(dir, out))
			_, perr := os.Lstat(filepath.Join(dir, out, name))
			switch {
			case err != nil || !st.IsDir() || perr == nil:
			case cliref.NameClass(name) == "usable":
				expect = "ok-generate"
			case cliref.NameClass(name) == "predeclared":
				expect = "either"
			}
		}
		if _, ok := specFor[i]; ok && expect == "ok-generate" {
			expect = "either" // the text is one of the shared definition sets: generation, or a clean error
		}
		cmd := exec.Command(bin, args...)
		cmd.Dir = dir
		cmd.Env = append(os.Environ(), "NO_COLOR=1", "TERM=dumb")
		var so, se bytes.Buffer
		cmd.Stdout, cmd.Stderr = &so, &se
		done := make(chan error, 1)
		if err := cmd.Start(); err != nil {
			ev.Fatal("start: %v", err)
		}
		go func() { done <- cmd.Wait() }()
		code := 0
		select {
		case err := <-done:
			if ee, ok := err.(*exec.ExitError); ok {
				code = ee.ExitCode()
			} else if err != nil {
				code = -1
			}
		case <-time.After(120 * time.Second):
			_ = cmd.Process.Kill()
			code = -2
		}
		_ = os.RemoveAll(dir)
		r.Add("command_lines", 1)
		r.Distinct("c:" + strings.Join(args, " "))
		in := map[string]any{"Kind": "cli", "Args": args, "Text": validText}
		all := so.String() + se.String()
		switch {
		case code == -2:
			r.Report("", fmt.Sprintf("emerge %q does not exit within 120 s", args), in)
		case strings.Contains(all, "goroutine ") || strings.Contains(all, "panic:") || strings.Contains(all, "runtime error") || strings.Contains(all, "runtime."):
			r.Report("", fmt.Sprintf("emerge %q prints a Go stack trace (exit status %d):\n%s", args, code, head(all)), in)
		case code != 0 && code != 1 && code != 2:
			r.Report("", fmt.Sprintf("emerge %q exits with status %d", args, code), in)
		case code != 0 && strings.TrimSpace(se.String()) == "":
			r.Report("", fmt.Sprintf("emerge %q exits with status %d without any message on stderr (stdout: %s)", args, code, head(so.String())), in)
		}
		announced := strings.Contains(all, "Successful")
		switch {
		case code < 0:
		case expect == "fail" && (code == 0 || announced):
			r.Report("", fmt.Sprintf("emerge %q must fail with a message (the command line names no acceptable specification to generate from, or is malformed) but exits with status %d, success announced: %v\nstdout: %s\nstderr: %s", args, code, announced, head(so.String()), head(se.String())), in)
		case expect == "ok-info" && (code != 0 || announced || strings.TrimSpace(all) == ""):
			r.Report("", fmt.Sprintf("emerge %q asks for help/version: expected status 0 and the text, got status %d, success announced: %v, output %q", args, code, announced, head(all)), in)
		case expect == "ok-generate" && (code != 0 || !announced):
			r.Report("", fmt.Sprintf("emerge %q names a valid specification, an existing output directory and a usable name but exits with status %d, success announced: %v\nstderr: %s", args, code, announced, head(se.String())), in)
		case (code == 0) != (announced || expect == "ok-info"):
			r.Report("", fmt.Sprintf("emerge %q: exit status %d but success announced: %v", args, code, announced), in)
		}
		r.Add("command_lines_expect_"+expect, 1)
		if i%701 == 0 {
			r.Sample(map[string]any{"args": args, "exit": code, "expected": expect, "stderr": head(se.String())})
		}
	}
}

func head(s string) string {
	if len(s) > 400 {
		return s[:400] + "…"
	}
	return s
}
