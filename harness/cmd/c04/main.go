// C04: the built-in EBNF parser accepts exactly the documented, disambiguated grammar; its tables are the
// LALR(1) tables of that grammar entry for entry; regenerating them reproduces the checked-in file.
package main

import (
	"bytes"
	"fmt"
	"os"
	"os/exec"
	"path/filepath"
	"sort"
	"strings"

	"github.com/moorara/algo/grammar"
	"github.com/moorara/algo/parser/lr"

	"github.com/gardenbed/emerge/internal/ebnf/parser"
	"github.com/gardenbed/emerge/verif/ev"
	"github.com/gardenbed/emerge/verif/ref/ebnfref"
	"github.com/gardenbed/emerge/verif/ref/lrref"
)

var kinds = []string{"=", ";", "|", "(", ")", "[", "]", "{", "}", "{{", "}}", "<", ">", "grammar", "@left", "@right", "@none", "IDENT", "TOKEN", "STRING", "REGEX", "PREDEF"}
var nonterms = []string{"grammar", "name", "decls", "decl", "semi_opt", "token", "directive", "handles", "rule_handle", "rule", "lhs", "rhs", "nonterm", "term"}

func isKind(s string) bool {
	for _, k := range kinds {
		if k == s {
			return true
		}
	}
	return false
}

// docGrammar is the documented grammar (ebnfref's transcription of docs/5-definitions.md) with the five
// documented precedence lines.
func docGrammar() *lrref.Grammar {
	var prods []lrref.Prod
	for i, h := range ebnfref.Heads {
		p := lrref.Prod{Head: h}
		for _, s := range ebnfref.Bodies[i] {
			p.Body = append(p.Body, lrref.Sym{Name: s, Term: isKind(s)})
		}
		prods = append(prods, p)
	}
	set := func(xs ...string) map[string]bool {
		m := map[string]bool{}
		for _, x := range xs {
			m[x] = true
		}
		return m
	}
	concat := lrref.Prod{Head: "rhs", Body: []lrref.Sym{{Name: "rhs"}, {Name: "rhs"}}}
	levels := []lrref.Level{
		{Assoc: "left", Prods: set(concat.String())},
		{Assoc: "left", Terms: set("(", "[", "{", "{{", "IDENT", "TOKEN", "STRING")},
		{Assoc: "right", Terms: set("|")},
		{Assoc: "none", Terms: set("=")},
		{Assoc: "none", Terms: set("@left", "@right", "@none")},
	}
	return lrref.New("grammar", prods, levels)
}

// sub-check 1: the grammar data the table was built from equals the documentation
func checkGrammarData(r *ev.Run) {
	_, prec, prods, terms, nts := parser.VerifGrammar()
	in := map[string]any{"Kind": "grammar-data"}
	if len(prods) != len(ebnfref.Heads) {
		r.Report("", fmt.Sprintf("the parser has %d productions, the documented grammar expands to %d", len(prods), len(ebnfref.Heads)), in)
		return
	}
	for i, p := range prods {
		var body []string
		for _, s := range p.Body {
			body = append(body, s.Name())
		}
		if string(p.Head) != ebnfref.Heads[i] || strings.Join(body, " ") != strings.Join(ebnfref.Bodies[i], " ") {
			r.Report("", fmt.Sprintf("production %d is %s, the documentation says %s → %s", i, p, ebnfref.Heads[i], strings.Join(ebnfref.Bodies[i], " ")), in)
		}
		for j, s := range p.Body {
			if s.IsTerminal() != isKind(ebnfref.Bodies[i][j]) {
				r.Report("", fmt.Sprintf("production %d symbol %d: terminal-ness differs from the documentation", i, j), in)
			}
		}
	}
	var ts, ns []string
	for _, t := range terms {
		ts = append(ts, string(t))
	}
	for _, n := range nts {
		ns = append(ns, string(n))
	}
	sort.Strings(ts)
	sort.Strings(ns)
	wt, wn := append([]string{}, kinds...), append([]string{}, nonterms...)
	sort.Strings(wt)
	sort.Strings(wn)
	if strings.Join(ts, " ") != strings.Join(wt, " ") || strings.Join(ns, " ") != strings.Join(wn, " ") {
		r.Report("", fmt.Sprintf("symbol sets differ: terminals %q non-terminals %q", ts, ns), in)
	}
	want := []string{`LEFT rhs = rhs rhs`, `LEFT "(", "IDENT", "STRING", "TOKEN", "[", "{", "{{"`, `RIGHT "|"`, `NONE "="`, `NONE "@left", "@none", "@right"`}
	var got []string
	for _, l := range prec {
		got = append(got, l.String())
	}
	if strings.Join(got, "\n") != strings.Join(want, "\n") {
		r.Report("", fmt.Sprintf("precedence levels are\n%s\nthe documentation lists\n%s", strings.Join(got, "\n"), strings.Join(want, "\n")), in)
	}
	r.Add("grammar_data_items", len(prods)+len(terms)+len(nts)+len(prec))
}

func term(a string) grammar.Terminal {
	if a == lrref.End {
		return grammar.Endmarker
	}
	return grammar.Terminal(a)
}

// sub-check 2: every cell of the embedded tables equals the LALR(1) table of the documented grammar
func checkTables(r *ev.Run, t *lrref.Table) {
	in := map[string]any{"Kind": "tables"}
	if len(t.Conflicts) > 0 {
		r.Report("", fmt.Sprintf("the documented grammar with the documented precedences has %d unresolved LALR(1) conflicts (first: state %d on %q)", len(t.Conflicts), t.Conflicts[0].State, t.Conflicts[0].Terminal), in)
		return
	}
	// grow the state bijection from the start states through SHIFT and GOTO targets
	refToImpl := map[int]int{0: 0}
	implToRef := map[int]int{0: 0}
	queue := []int{0}
	link := func(rs, is int, via string) bool {
		if old, ok := refToImpl[rs]; ok {
			if old != is {
				r.Report("", fmt.Sprintf("state correspondence broken via %s: reference state %d maps to table states %d and %d", via, rs, old, is), in)
				return false
			}
			return true
		}
		if old, ok := implToRef[is]; ok && old != rs {
			r.Report("", fmt.Sprintf("state correspondence broken via %s: table state %d maps to reference states %d and %d", via, is, old, rs), in)
			return false
		}
		refToImpl[rs], implToRef[is] = is, rs
		queue = append(queue, rs)
		return true
	}
	cells := 0
	for len(queue) > 0 {
		rs := queue[0]
		queue = queue[1:]
		is := refToImpl[rs]
		for _, a := range append(append([]string{}, kinds...), lrref.End) {
			cells++
			typ, param, err := parser.ACTION(is, term(a))
			acts := t.Actions[rs][a]
			where := fmt.Sprintf("ACTION[%d, %q] (reference state %d, kernel %s)", is, a, rs, t.Kernels[rs])
			if len(acts) == 0 {
				if err == nil {
					r.Report("", fmt.Sprintf("%s = %v %d, but the LALR(1) table of the documented grammar has no entry there (extra entry)", where, typ, param), in)
				}
				continue
			}
			if err != nil {
				r.Report("", fmt.Sprintf("%s is an error entry, the LALR(1) table has %v", where, acts[0]), in)
				continue
			}
			switch act := acts[0]; act.Kind {
			case lrref.Shift:
				if typ != lr.SHIFT {
					r.Report("", fmt.Sprintf("%s = %v, the LALR(1) table shifts", where, typ), in)
				} else {
					link(act.Arg, param, where)
				}
			case lrref.Reduce:
				if typ != lr.REDUCE || param != act.Arg-1 {
					r.Report("", fmt.Sprintf("%s = %v %d, the LALR(1) table reduces by production %d (%s)", where, typ, param, act.Arg-1, t.G.Prods[act.Arg]), in)
				}
			case lrref.Accept:
				if typ != lr.ACCEPT {
					r.Report("", fmt.Sprintf("%s = %v, the LALR(1) table accepts", where, typ), in)
				}
			}
		}
		for _, A := range nonterms {
			cells++
			g := parser.GOTO(is, grammar.NonTerminal(A))
			want, ok := t.Gotos[rs][A]
			where := fmt.Sprintf("GOTO[%d, %s] (reference state %d)", is, A, rs)
			switch {
			case !ok && g != -1:
				r.Report("", fmt.Sprintf("%s = %d, but the LALR(1) table has no entry there (extra entry)", where, g), in)
			case ok && g == -1:
				r.Report("", fmt.Sprintf("%s is empty, the LALR(1) table has a target", where), in)
			case ok:
				link(want, g, where)
			}
		}
	}
	if len(refToImpl) != t.NStates {
		r.Report("", fmt.Sprintf("only %d of the %d LALR(1) states have a counterpart in the table", len(refToImpl), t.NStates), in)
	}
	// everything outside the image of the bijection must be empty: unreachable and out-of-range states,
	// foreign terminals and non-terminals
	foreignT := []string{"FOO", "", "ident", "$", "EOF"}
	foreignN := []string{"foo", "", "expr"}
	for s := -2; s <= 400; s++ {
		_, reachable := implToRef[s]
		for _, a := range append(append(append([]string{}, kinds...), lrref.End), foreignT...) {
			if reachable && (isKind(a) || a == lrref.End) {
				continue
			}
			cells++
			if typ, param, err := parser.ACTION(s, term(a)); err == nil {
				r.Report("", fmt.Sprintf("ACTION[%d, %q] = %v %d: entry outside the LALR(1) table (state reachable: %v)", s, a, typ, param, reachable), in)
			}
		}
		for _, A := range append(append([]string{}, nonterms...), foreignN...) {
			known := false
			for _, n := range nonterms {
				known = known || n == A
			}
			if reachable && known {
				continue
			}
			cells++
			if g := parser.GOTO(s, grammar.NonTerminal(A)); g != -1 {
				r.Report("", fmt.Sprintf("GOTO[%d, %s] = %d: entry outside the LALR(1) table (state reachable: %v)", s, A, g, reachable), in)
			}
		}
	}
	r.Set("table_cells_compared", cells)
	r.Set("lalr_states", t.NStates)
	r.Set("lalr_conflicts_resolved_by_precedence", t.Resolved)
}

// implDriver is the standard shift-reduce loop over the REAL embedded ACTION/GOTO functions.
type implDriver struct {
	stack []int
	reds  []int
}

func (d *implDriver) clone() *implDriver {
	return &implDriver{stack: append([]int{}, d.stack...), reds: append([]int{}, d.reds...)}
}

// feed consumes one terminal: true if shifted (or accepted on End), false on error.
func (d *implDriver) feed(a string, prods []*grammar.Production) (ok, accepted bool) {
	for steps := 0; steps < 10000; steps++ {
		typ, param, err := parser.ACTION(d.stack[len(d.stack)-1], term(a))
		if err != nil {
			return false, false
		}
		switch typ {
		case lr.SHIFT:
			d.stack = append(d.stack, param)
			return true, false
		case lr.REDUCE:
			p := prods[param]
			d.stack = d.stack[:len(d.stack)-len(p.Body)]
			next := parser.GOTO(d.stack[len(d.stack)-1], p.Head)
			if next == -1 {
				return false, false
			}
			d.stack = append(d.stack, next)
			d.reds = append(d.reds, param)
		case lr.ACCEPT:
			return true, true
		default:
			return false, false
		}
	}
	return false, false
}

type refDriver struct{ stack []int }

func (d *refDriver) clone() *refDriver { return &refDriver{stack: append([]int{}, d.stack...)} }

func (d *refDriver) feed(t *lrref.Table, a string) (ok, accepted bool) {
	for steps := 0; steps < 10000; steps++ {
		acts := t.Actions[d.stack[len(d.stack)-1]][a]
		if len(acts) != 1 {
			return false, false
		}
		switch act := acts[0]; act.Kind {
		case lrref.Shift:
			d.stack = append(d.stack, act.Arg)
			return true, false
		case lrref.Reduce:
			p := t.G.Prods[act.Arg]
			d.stack = d.stack[:len(d.stack)-len(p.Body)]
			d.stack = append(d.stack, t.Gotos[d.stack[len(d.stack)-1]][p.Head])
		case lrref.Accept:
			return true, true
		}
	}
	return false, false
}

func render(seq []string) string {
	words := make([]string, len(seq))
	for i, k := range seq {
		switch k {
		case "IDENT":
			words[i] = "ab"
		case "TOKEN":
			words[i] = "AB"
		case "STRING":
			words[i] = `"s"`
		case "REGEX":
			words[i] = "/r/"
		case "PREDEF":
			words[i] = "$ID"
		default:
			words[i] = k
		}
	}
	return strings.Join(words, " ") + "\n"
}

func lexToks(seq []string) []ebnfref.LexToken {
	out := make([]ebnfref.LexToken, len(seq))
	for i, k := range seq {
		out[i] = ebnfref.LexToken{Kind: k, Lexeme: k}
	}
	return out
}

// realParse runs the real lexer + parser driver on the rendered text.
func realParse(seq []string) (accepted bool, pan any) {
	defer func() { pan = recover() }()
	p, err := parser.New("f", strings.NewReader(render(seq)))
	if err != nil {
		return false, nil
	}
	return p.Parse(nil, nil) == nil, nil
}

// sub-check 3: language and tree shape, over every token sequence up to the bound that is a viable prefix
// for the real tables or for the reference tables
var errSuffixes = [][]string{{}, {";"}, {"}"}, {"}}"}, {")"}, {"]"}, {">"}, {"IDENT"}, {"|"}, {"}", ";"}, {"}}", ";"}}

var errLen = 7

func checkLanguage(r *ev.Run, t *lrref.Table, maxLen, realLen int) {
	_, _, prods, _, _ := parser.VerifGrammar()
	var seq []string
	var visit func(di *implDriver, dr *refDriver, okI, okR bool)
	n := 0
	visit = func(di *implDriver, dr *refDriver, okI, okR bool) {
		n++
		mine := r.MineIdx(n)
		if mine {
			// acceptance of the sequence as it stands
			accI, accR := false, false
			var reds []int
			if okI {
				c := di.clone()
				if ok, acc := c.feed(lrref.End, prods); ok && acc {
					accI = true
					reds = c.reds
				}
			}
			if okR {
				_, accR = dr.clone().feed(t, lrref.End)
			}
			root, serr := ebnfref.ParseTokens(lexToks(seq))
			accD := serr == nil
			r.Add("sequences", 1)
			in := map[string]any{"Kind": "sequence", "Seq": append([]string{}, seq...)}
			if accI != accD || accR != accD {
				r.Report("", fmt.Sprintf("token sequence %q: embedded tables accept=%v, LALR(1) tables of the documented grammar accept=%v, recursive-descent recogniser of the documentation accept=%v", seq, accI, accR, accD), in)
			} else if accD {
				r.Add("sentences", 1)
				r.Distinct(strings.Join(seq, " "))
				var want []int
				root.Walk(func(*ebnfref.LexToken) {}, func(nd *ebnfref.Node) { want = append(want, nd.Prod) })
				if fmt.Sprint(want) != fmt.Sprint(reds) {
					r.Report("", fmt.Sprintf("token sequence %q: the embedded tables reduce by %v, the documented disambiguation gives %v", seq, reds, want), in)
				}
			}
			if len(seq) <= realLen && len(seq) > 0 {
				got, pan := realParse(seq)
				r.Add("real_driver_runs", 1)
				if pan == nil && got != accD {
					r.Report("", fmt.Sprintf("text %q: Parser.Parse accepts=%v, the documented grammar accepts=%v", render(seq), got, accD), in)
				}
			}
			if r.Get("sequences")%20011 == 1 {
				r.Sample(map[string]any{"sequence": strings.Join(seq, " "), "accepted": accD})
			}
		}
		if len(seq) == maxLen {
			return
		}
		// text that is no token at all, after every viable prefix (complete specifications among them): the scanner's
		// error is not the end of the input
		if mine && len(seq) >= 2 && len(seq) <= errLen {
			for _, stray := range []string{"#", "~", "\"open", "@lef"} {
				for _, suffix := range errSuffixes {
					bad := append(append(append([]string{}, seq...), stray), suffix...)
					got, pan := realParse(bad)
					r.Add("real_driver_runs", 1)
					r.Add("real_driver_runs_after_stray_text", 1)
					if pan == nil && got {
						r.Report("", fmt.Sprintf("text %q: Parser.Parse accepts a text holding %q, which is no token", render(bad), stray),
							map[string]any{"Kind": "sequence", "Seq": bad})
					}
				}
			}
		}
		for _, k := range kinds {
			ni, nr := di, dr
			oi, or := false, false
			if okI {
				ni = di.clone()
				oi, _ = ni.feed(k, prods)
			}
			if okR {
				nr = dr.clone()
				or, _ = nr.feed(t, k)
			}
			if oi != or {
				if r.MineIdx(n) {
					r.Report("", fmt.Sprintf("after %q the token %q is shifted by the embedded tables: %v, by the LALR(1) tables of the documented grammar: %v", seq, k, oi, or),
						map[string]any{"Kind": "sequence", "Seq": append(append([]string{}, seq...), k)})
				}
			}
			if !oi && !or {
				// the real driver (scanner + Parser.Parse) on a sequence that the grammar cannot continue with k: it must
				// reject it, whatever follows (nothing, one more token, a closing token)
				if mine && len(seq) >= 3 && len(seq) <= errLen {
					for _, suffix := range errSuffixes {
						bad := append(append(append([]string{}, seq...), k), suffix...)
						got, pan := realParse(bad)
						r.Add("real_driver_runs", 1)
						r.Add("real_driver_runs_after_an_error_token", 1)
						if pan == nil && got {
							r.Report("", fmt.Sprintf("text %q: Parser.Parse accepts a token sequence that the documented grammar cannot continue after %q", render(bad), seq),
								map[string]any{"Kind": "sequence", "Seq": bad})
						}
					}
				}
				continue
			}
			seq = append(seq, k)
			visit(ni, nr, oi, or)
			seq = seq[:len(seq)-1]
		}
	}
	visit(&implDriver{stack: []int{0}}, &refDriver{stack: []int{0}}, true, true)
}

// sub-check 4: regenerating the table reproduces the checked-in file byte for byte
func checkRegeneration(r *ev.Run) {
	in := map[string]any{"Kind": "regeneration"}
	tmp, err := os.MkdirTemp("", "verif-c04-")
	if err != nil {
		ev.Fatal("mktemp: %v", err)
	}
	defer os.RemoveAll(tmp)
	cp := exec.Command("rsync", "-a", "--exclude", ".git", "/repo/", tmp+"/")
	if out, err := cp.CombinedOutput(); err != nil {
		ev.Fatal("copy /repo: %v %s", err, out)
	}
	dir := filepath.Join(tmp, "internal", "ebnf", "parser")
	want, err := os.ReadFile(filepath.Join(dir, "parsing_table.go"))
	if err != nil {
		ev.Fatal("%v", err)
	}
	_ = os.Remove(filepath.Join(dir, "parsing_table.go"))
	// keep the package compilable while its table file is absent
	cmd := exec.Command("go", "run", "./generate")
	cmd.Dir = dir
	cmd.Env = append(os.Environ(), "GOFLAGS=-mod=mod")
	out, err := cmd.CombinedOutput()
	if err != nil {
		r.Report("", fmt.Sprintf("go run ./generate failed: %v\n%s", err, out), in)
		return
	}
	got, err := os.ReadFile(filepath.Join(dir, "parsing_table.go"))
	if err != nil {
		r.Report("", "go run ./generate did not write parsing_table.go", in)
		return
	}
	r.Set("regenerated_bytes", len(got))
	if !bytes.Equal(got, want) {
		i := 0
		for i < len(got) && i < len(want) && got[i] == want[i] {
			i++
		}
		line := 1 + bytes.Count(want[:min(i, len(want))], []byte("\n"))
		r.Report("", fmt.Sprintf("regenerated parsing_table.go differs from the checked-in file (first difference at byte %d, line %d; %d vs %d bytes)", i, line, len(got), len(want)), in)
	}
}

func main() {
	r := ev.Start("C04", "model_checking")
	g := docGrammar()
	t := g.Build()
	maxLen, realLen := 9, 6
	if !r.Quick() {
		maxLen, realLen = 11, 7
		errLen = 8
	}
	if r.Replay != "" {
		var in struct {
			Kind string
			Seq  []string
		}
		if err := r.LoadReplay(&in); err != nil {
			ev.Fatal("%v", err)
		}
		switch in.Kind {
		case "grammar-data":
			checkGrammarData(r)
		case "tables":
			checkTables(r, t)
		case "regeneration":
			checkRegeneration(r)
		case "scaling":
			checkScaling(r, t)
		default:
			_, _, prods, _, _ := parser.VerifGrammar()
			di := &implDriver{stack: []int{0}}
			okI := true
			for _, k := range in.Seq {
				if ok, _ := di.feed(k, prods); !ok {
					okI = false
					break
				}
			}
			accI := false
			if okI {
				_, accI = di.feed(lrref.End, prods)
			}
			_, serr := ebnfref.ParseTokens(lexToks(in.Seq))
			got, _ := realParse(in.Seq)
			fmt.Printf("replay %q: tables accept=%v reductions=%v, documentation accept=%v, Parser.Parse accept=%v\n", in.Seq, accI, di.reds, serr == nil, got)
			if accI != (serr == nil) || got != (serr == nil) {
				r.Report("", fmt.Sprintf("token sequence %q: tables accept=%v, Parser.Parse accept=%v, documentation accept=%v", in.Seq, accI, got, serr == nil), in)
			}
		}
		r.Finish()
	}
	if s, n := r.ShardInfo(); n == 1 && s == 0 && os.Getenv("VERIF_WORKER") == "" {
		// the three complete sub-checks run once, in the parent
		checkGrammarData(r)
		checkTables(r, t)
		checkRegeneration(r)
	}
	if r.Fork(16) {
		r.Set("rule", "sub-checks 1,2,4 are complete (grammar data, every table cell incl. out-of-range states and foreign symbols, byte-wise regeneration); sub-check 3 enumerates every token sequence over the 22 token kinds up to the length bound that is a viable prefix for the embedded tables or for the LALR(1) tables built from the documentation; every viable prefix up to 7 (quick) / 8 tokens followed by a token the grammar cannot continue with and by 11 continuations (nothing, closing tokens, an operand) goes through the real scanner and driver, which must reject it; states = sequences visited, transitions = feed steps; non-trivial = accepted sequence; distinct by sequence")
		r.Set("states", r.Get("sequences"))
		r.Set("transitions", r.Get("sequences")*len(kinds))
		r.Set("traces_validated_against_impl", r.Get("sequences"))
		r.Set("evaluations", r.Get("sequences"))
		r.Finish()
	}
	r.Set("exhaustive", true)
	r.Set("bound_sequence_length", maxLen)
	r.Set("bound_sequence_length_real_driver", realLen)
	r.Set("bound_prefix_length_before_an_error_token_real_driver", errLen)
	checkLanguage(r, t, maxLen, realLen)
	checkScaling(r, t)
	r.Assume("the documented grammar and precedence list are transcribed in ref/ebnfref (Heads/Bodies) and cmd/c04 (levels); the reference LALR(1) construction is ref/lrref; the recursive-descent recogniser is ref/ebnfref.ParseTokens")
	r.Finish()
}

// checkScaling: long sentences of simple shape (every size 1..130, then 200, 500, 1000, 2000) must be accepted by the
// real lexer + Parser.Parse and by the embedded tables exactly as the documented grammar says, with the documented
// reduction sequence. Short sentences cannot reach depth- or length-related limits of the driver.
func checkScaling(r *ev.Run, t *lrref.Table) {
	_, _, prods, _, _ := parser.VerifGrammar()
	var sizes []int
	for n := 1; n <= 130; n++ {
		sizes = append(sizes, n)
	}
	sizes = append(sizes, 200, 500, 1000)
	if !r.Quick() {
		sizes = append(sizes, 2000, 5000)
	}
	k := 0
	ebnfref.Scaling(sizes, func(text, family string, n int) {
		k++
		if !r.MineIdx(k) || r.Expired() {
			return
		}
		in := map[string]any{"Kind": "scaling", "Family": family, "N": n}
		toks, lerr := ebnfref.Tokenize(text)
		if lerr != nil {
			ev.Fatal("scaling text not tokenizable: %v", lerr)
		}
		root, serr := ebnfref.ParseTokens(toks)
		if serr != nil {
			ev.Fatal("scaling text %s/%d not a specification: %v", family, n, serr)
		}
		r.Add("scaling_sentences", 1)
		r.Distinct(fmt.Sprintf("scaling/%s/%d", family, n))
		var want []int
		root.Walk(func(*ebnfref.LexToken) {}, func(nd *ebnfref.Node) { want = append(want, nd.Prod) })
		// embedded tables through the harness driver
		di := &implDriver{stack: []int{0}}
		okI := true
		for _, tk := range toks {
			if ok, _ := di.feed(tk.Kind, prods); !ok {
				okI = false
				break
			}
		}
		accI := false
		if okI {
			_, accI = di.feed(lrref.End, prods)
		}
		if !accI {
			r.Report("", fmt.Sprintf("the embedded tables reject a sentence of the documented grammar: %s with n=%d (%d tokens)", family, n, len(toks)), in)
		} else if fmt.Sprint(di.reds) != fmt.Sprint(want) {
			r.Report("", fmt.Sprintf("the embedded tables reduce a long sentence differently from the documented disambiguation: %s with n=%d", family, n), in)
		}
		// the real driver
		var got []int
		var perr error
		var pan any
		func() {
			defer func() { pan = recover() }()
			p, err := parser.New("f", strings.NewReader(text))
			if err != nil {
				perr = err
				return
			}
			perr = p.Parse(nil, func(i int) error { got = append(got, i); return nil })
		}()
		switch {
		case pan != nil:
			r.Report("", fmt.Sprintf("Parser.Parse panics on a sentence of the documented grammar: %s with n=%d: %v", family, n, pan), in)
		case perr != nil:
			r.Report("", fmt.Sprintf("Parser.Parse rejects a sentence of the documented grammar: %s with n=%d (%d tokens): %v", family, n, len(toks), perr), in)
		case fmt.Sprint(got) != fmt.Sprint(want):
			r.Report("", fmt.Sprintf("Parser.Parse reduces a long sentence differently from the documented disambiguation: %s with n=%d", family, n), in)
		}
	})
}
