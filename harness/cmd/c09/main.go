// C09: a pattern is accepted only as a whole sentence of the documented pattern grammar.
package main

import (
	"fmt"
	"sort"
	"strings"

	rparser "github.com/gardenbed/emerge/internal/regex/parser"
	rast "github.com/gardenbed/emerge/internal/regex/parser/ast"
	"github.com/gardenbed/emerge/internal/regex/parser/nfa"
	"github.com/gardenbed/emerge/verif/ev"
	"github.com/gardenbed/emerge/verif/ref/bracketref"
	"github.com/gardenbed/emerge/verif/ref/patgram"
	"github.com/gardenbed/emerge/verif/ref/regexref"
	"github.com/gardenbed/emerge/verif/rx"
)

var sigma = []rune(`\|.?*+()[]{}$^-,:a1xAspL`)

type verdict struct {
	ok    bool
	err   string
	panic any
}

func try(f func() error) (v verdict) {
	defer func() {
		if p := recover(); p != nil {
			v = verdict{panic: p}
		}
	}()
	err := f()
	if err != nil {
		return verdict{err: err.Error()}
	}
	return verdict{ok: true}
}

func parseNFA(s string) verdict { return try(func() error { _, err := nfa.Parse(s); return err }) }
func parseAST(s string) verdict { return try(func() error { _, err := rast.Parse(s); return err }) }

// checkString applies the acceptance oracle to one string; mustAccept is set for canonical prints.
func checkString(r *ev.Run, s, family string, mustAccept bool) {
	n, a := parseNFA(s), parseAST(s)
	r.Add("strings", 1)
	r.Add("strings_"+family, 1)
	if n.panic != nil || a.panic != nil {
		r.Add("panics_left_to_C14", 1)
	}
	sentence := patgram.Sentence(s)
	if sentence {
		r.Add("sentences", 1)
	}
	if n.ok || a.ok {
		r.Add("accepted", 1)
		r.Distinct(s)
	}
	in := map[string]any{"Text": s, "MustAccept": mustAccept}
	for _, e := range []struct {
		name string
		v    verdict
	}{{"nfa.Parse", n}, {"ast.Parse", a}} {
		if e.v.ok && !sentence {
			r.Report("", fmt.Sprintf("%s accepts %q, which is not a sentence of the documented pattern grammar", e.name, s), in)
		}
		if mustAccept && !e.v.ok && e.v.panic == nil {
			r.Report("", fmt.Sprintf("%s rejects %q, a canonical print of a documented construct: %s", e.name, s, e.v.err), in)
		}
	}
	if n.panic == nil && a.panic == nil && n.ok != a.ok {
		r.Report("", fmt.Sprintf("entry points disagree on %q: nfa.Parse ok=%v (%s), ast.Parse ok=%v (%s)", s, n.ok, n.err, a.ok, a.err), in)
	}
}

// checkMeaningless: grammatical but meaningless patterns must be rejected with an error naming the range.
func checkMeaningless(r *ev.Run, s string, fragments []string) {
	r.Add("strings", 1)
	r.Add("strings_meaningless", 1)
	r.Distinct(s)
	in := map[string]any{"Text": s, "Fragments": fragments}
	if !patgram.Sentence(s) {
		ev.Fatal("harness: %q should be grammatical", s)
	}
	for _, e := range []struct {
		name string
		v    verdict
	}{{"nfa.Parse", parseNFA(s)}, {"ast.Parse", parseAST(s)}} {
		if e.v.panic != nil {
			continue
		}
		if e.v.ok {
			r.Report("", fmt.Sprintf("%s accepts the meaningless pattern %q", e.name, s), in)
			continue
		}
		named := false
		for _, f := range fragments {
			named = named || strings.Contains(e.v.err, f)
		}
		if !named {
			r.Report("", fmt.Sprintf("%s rejects %q but the error %q does not name the offending range (any of %q)", e.name, s, e.v.err, fragments), in)
		}
	}
}

func main() {
	r := ev.Start("C09", "exploration")
	if r.Replay != "" {
		var in struct {
			Text       string
			MustAccept bool
			Fragments  []string
		}
		if err := r.LoadReplay(&in); err != nil {
			ev.Fatal("%v", err)
		}
		if in.Fragments != nil {
			checkMeaningless(r, in.Text, in.Fragments)
		} else {
			checkString(r, in.Text, "replay", in.MustAccept)
		}
		r.Finish()
	}
	if r.Fork(16) {
		r.Set("rule", "all strings up to the length bound over the 24-symbol alphabet "+string(sigma)+" (every metacharacter plus representatives), canonical prints of the C02 pattern trees, all single-character insertions/deletions/replacements of the prints of trees with <= 2 (quick) / 3 (thorough) operator nodes, meaningless ranges, every bracket group assembled from up to 3 (quick) / 4 (thorough) of 18 bracket tokens judged by all of its derivations in the documented grammar (all valid and agreeing: must be accepted; all holding a descending range: must be rejected naming one), repetition counts written with up to 19 leading zeros, every class name (known to the implementation or documented, and near misses) in 10 contexts, and every character (all of ASCII plus 5 others) in 30 item contexts (escape, bracket item, range end, repetition count, class name, hex digit); non-trivial = accepted by at least one entry point (or a meaningless-range case); distinct by text")
		r.Set("evaluations", r.Get("strings"))
		r.Finish()
	}
	r.Set("exhaustive", true)
	maxLen := 4
	if !r.Quick() {
		maxLen = 5
	}
	r.Set("bound_string_length", maxLen)
	// (1) all strings over sigma
	buf := make([]rune, 0, 8)
	var gen func(n int)
	count := 0
	gen = func(n int) {
		if len(buf) > 0 {
			count++
			if r.MineIdx(count) {
				if count%4096 == 0 && r.Expired() {
					r.Set("exhaustive", false)
					return
				}
				checkString(r, string(buf), "exhaustive", false)
			}
		}
		if n == 0 {
			return
		}
		for _, c := range sigma {
			buf = append(buf, c)
			gen(n - 1)
			buf = buf[:len(buf)-1]
		}
	}
	gen(maxLen)
	if !r.Quick() {
		// length-6 strings that open a bracket, a group, an escape or contain a repetition range
		for _, c := range sigma {
			for _, first := range []rune{'[', '(', '\\', '{'} {
				_ = c
				_ = first
			}
		}
		pre := []string{"[", "(", "\\", "a{", "[^", "\\x"}
		for _, p := range pre {
			buf = append(buf[:0], []rune(p)...)
			gen(6 - len([]rune(p)))
		}
		r.Set("bound_string_length_prefixed", 6)
	}
	// (2) canonical prints and (3) their single-edit mutations
	mutMax := 2
	if !r.Quick() {
		mutMax = 3
	}
	seenMut := map[string]bool{}
	rx.Space(r.Quick(), func(t *regexref.Expr, family string) {
		text := t.String()
		if !r.Mine(text) {
			return
		}
		checkString(r, text, "canonical", true)
		// the anchor `$` is an item like any other (subexpr_item = anchor | group | match): the same tree with one
		// anchor inserted at every item position of every sequence, at any depth, and the start anchor in front
		if strings.HasPrefix(family, "trees_") || family == "quantifiers" {
			for _, a := range anchored(t) {
				checkString(r, a, "canonical_with_anchor", true)
			}
			checkString(r, "^"+text, "canonical_with_anchor", true)
		}
		if t.Size() > mutMax || !strings.HasPrefix(family, "trees_size") || r.Expired() {
			return
		}
		rs := []rune(text)
		mut := func(m []rune) {
			s := string(m)
			if s == "" || seenMut[s] {
				return
			}
			seenMut[s] = true
			checkString(r, s, "mutants", false)
		}
		for i := 0; i <= len(rs); i++ {
			for _, c := range sigma {
				mut(append(append(append([]rune{}, rs[:i]...), c), rs[i:]...))
				if i < len(rs) {
					mut(append(append(append([]rune{}, rs[:i]...), c), rs[i+1:]...))
				}
			}
			if i < len(rs) {
				mut(append(append([]rune{}, rs[:i]...), rs[i+1:]...))
			}
		}
	})
	// (4) grammatical but meaningless
	if s, n := r.ShardInfo(); s == 0 || n == 1 {
		for _, c := range []struct {
			p string
			f []string
		}{
			{"[c-a]", []string{"c-a"}}, {"[z-a]+", []string{"z-a"}}, {"x[b-a]y", []string{"b-a"}}, {"[^9-0]", []string{"9-0"}},
			{`[\x43-\x41]`, []string{"C-A", `\x43-\x41`}}, {`[\x0102-\x0100]`, []string{"Ă-Ā", `\x0102-\x0100`}}, {"[a-cz-y]", []string{"z-y"}},
			{"a{2,1}", []string{"{2,1}"}}, {"a{3,0}", []string{"{3,0}"}}, {"(ab){10,9}", []string{"{10,9}"}}, {".{1,0}?", []string{"{1,0}"}}, {"[ab]{5,4}x", []string{"{5,4}"}},
			{"a{2,1}|[c-a]", []string{"{2,1}", "c-a"}},
		} {
			checkMeaningless(r, c.p, c.f)
		}
		// bracket groups assembled from every sequence of bracket tokens (a bare `]`, `!` and two hexadecimal characters
		// among them, so that every kind of character stands at both ends of ranges): when all derivations in the
		// documented grammar are valid and agree, and the greedy reading in documented order agrees too, the group is in
		// an unambiguous form and must be accepted; when every
		// derivation holds a descending range it must be rejected with an error naming one; otherwise only
		// "accepted => sentence" is demanded
		nb := 3
		if !r.Quick() {
			nb = 4
		}
		rx.BracketTexts(append(rx.BracketTokens(), "]", "!", `\x5D`, `\x7A`), nb, func(text string, res bracketref.Result) {
			_, demanded := rx.Demanded(text, res)
			switch {
			case res.Derivations < 0:
			case demanded:
				checkString(r, text, "bracket_unambiguous", true)
			case res.Derivations > 0 && res.Invalid == res.Derivations:
				checkMeaningless(r, text, res.BadRanges)
			default:
				checkString(r, text, "bracket_other", false)
			}
		})
		// repetition ranges whose minimum exceeds the maximum, with counts of every digit length
		counts := []string{"0", "1", "2", "9", "10", "99", "100", "999", "1000", "1001", "9999", "10000", "10001", "10005", "99999", "100000", "1000999", "4294967296", "18446744073709551616", "99999999999999999999"}
		val := func(s string) float64 {
			v := 0.0
			for _, c := range s {
				v = v*10 + float64(c-'0')
			}
			return v
		}
		for _, lo := range counts {
			for _, hi := range counts {
				if val(lo) > val(hi) {
					p := "a{" + lo + "," + hi + "}"
					checkMeaningless(r, p, []string{"{" + lo + "," + hi + "}", "repetition"})
				}
			}
		}
		// counts written with leading zeros: a sentence of the grammar (num = digit+), with the value the digits denote
		pad := func(s string, k int) string { return strings.Repeat("0", k) + s }
		for _, pr := range [][2]string{{"2", "12"}, {"0", "1"}, {"1", "1"}, {"3", "3"}, {"0", "0"}, {"7", "10"}, {"20", "3"}, {"7", "5"}, {"12", "11"}, {"1", "0"}} {
			for _, k1 := range []int{0, 1, 3, 4, 5, 6, 9, 19} {
				for _, k2 := range []int{0, 1, 4, 5, 6, 19} {
					lo, hi := pad(pr[0], k1), pad(pr[1], k2)
					ascending := val(pr[0]) <= val(pr[1])
					for _, ctx := range []string{"a{%s,%s}", "(ab){%s,%s}?", "[ab]{%s,%s}c"} {
						p := fmt.Sprintf(ctx, lo, hi)
						if ascending {
							checkString(r, p, "padded_counts", true)
						} else {
							checkMeaningless(r, p, []string{"repetition", "{"})
						}
					}
				}
			}
			for _, k1 := range []int{1, 4, 5, 6, 19} {
				checkString(r, "a{"+pad(pr[0], k1)+"}", "padded_counts", true)
				checkString(r, "a{"+pad(pr[0], k1)+",}", "padded_counts", true)
			}
		}
		checkString(r, "", "empty", false)
		// (6) class names: every name the implementation's tables know, every documented name, and near misses of both
		// (other case, one letter dropped or added), in every place a name can be written
		names := map[string]bool{"": true, "ASCII": true, "Ascii": true, "ascii": true, "punct": true, "cntrl": true, "graph": true, "print": true, "Any": true, "L&": true}
		for k := range rparser.RuneClasses {
			names[k] = true
		}
		for _, k := range regexref.UnicodeCategories {
			names[k] = true
		}
		for _, k := range regexref.ASCIIClassNames {
			names[strings.Trim(k, "[:]")] = true
		}
		var all []string
		for k := range names {
			all = append(all, k, strings.ToLower(k), strings.ToUpper(k), k+"x")
			if len(k) > 1 {
				all = append(all, k[:len(k)-1], k[1:])
			}
		}
		sort.Strings(all)
		for i, nm := range all {
			if i > 0 && all[i-1] == nm {
				continue
			}
			for _, ctx := range []string{"\\p{%s}", "\\P{%s}", "[\\p{%s}]", "[^\\P{%s}a]", "[:%s:]", "[[:%s:]]", "[^[:%s:]]", "[a[:%s:]]", "\\p%s", "\\p{%s"} {
				checkString(r, strings.ReplaceAll(ctx, "%s", nm), "class_names", false)
			}
		}
		// (5) every character in every item context: escapes, bracket items, range ends, repetition counts, class names
		var chars []rune
		for c := rune(0); c <= 0x7F; c++ {
			chars = append(chars, c)
		}
		chars = append(chars, 0x80, 0xE9, 0xFF, 0x4E2D, 0x1F600)
		contexts := []string{"%c", "\\%c", "a\\%c", "\\%cb", "\\%c+", "(\\%c)", "[\\%c]", "[^\\%c]", "[a\\%c]", "[a-\\%c]", "[\\%c-z]", "[%c]", "[^%c]", "[%c-z]", "[!-%c]",
			"a{%c}", "a{1,%c}", "a{%c,}", "\\p{%c}", "\\P%c", "\\x4%c", "\\x00%c1", "[:%c:]", "[[:%c:]]", "a%c", "a%cb", "(%c)", "a|%c", "\\%c\\%c", "\\\\%c"}
		for _, c := range chars {
			for _, ctx := range contexts {
				checkString(r, strings.ReplaceAll(ctx, "%c", string(c)), "every_character_in_context", false)
			}
		}
	}
	r.Assume("membership in the documented grammar is decided as a context-free grammar (any derivation); `char` is read as any character, the most permissive reading")
	r.Assume("a panic is counted here but judged by C14")
	r.Finish()
}

// anchored returns the prints of t with one `$` item inserted at every item position of every sequence of the tree.
func anchored(t *regexref.Expr) []string {
	var total int
	var print func(e *regexref.Expr, target int, k *int) string
	print = func(e *regexref.Expr, target int, k *int) string {
		var alts []string
		for _, s := range e.Alts {
			var b strings.Builder
			for i := 0; i <= len(s.Items); i++ {
				if *k == target {
					b.WriteString("$")
				}
				*k++
				if i == len(s.Items) {
					break
				}
				it := s.Items[i]
				if it.Group != nil {
					b.WriteString("(" + print(it.Group, target, k) + ")")
					if it.Q != nil {
						b.WriteString(strings.TrimPrefix(it.String(), "("+it.Group.String()+")"))
					}
				} else {
					b.WriteString(it.String())
				}
			}
			alts = append(alts, b.String())
		}
		return strings.Join(alts, "|")
	}
	k := 0
	_ = print(t, -1, &k)
	total = k
	var out []string
	for target := 0; target < total; target++ {
		k := 0
		out = append(out, print(t, target, &k))
	}
	return out
}
