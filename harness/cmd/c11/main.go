// C11: the syntax trees of a specification reflect the source exactly and round-trip.
package main

import (
	"fmt"
	"github.com/moorara/algo/generic"
	"strconv"
	"strings"

	"github.com/moorara/algo/lexer"
	aparser "github.com/moorara/algo/parser"
	"github.com/moorara/algo/parser/lr"

	"github.com/gardenbed/emerge/internal/ebnf/parser"
	east "github.com/gardenbed/emerge/internal/ebnf/parser/ast"
	"github.com/gardenbed/emerge/internal/ebnf/parser/spec"
	"github.com/gardenbed/emerge/verif/ev"
	"github.com/gardenbed/emerge/verif/ref/cfgref"
	"github.com/gardenbed/emerge/verif/ref/ebnfref"
)

func ps(p *lexer.Position) string {
	if p == nil {
		return "nil"
	}
	return fmt.Sprintf("%d:%d@%d", p.Line, p.Column, p.Offset)
}

func tp(t *ebnfref.LexToken) string { return fmt.Sprintf("%d:%d@%d", t.Line, t.Column, t.Offset) }

// ---- (a) generic parse tree --------------------------------------------------------------------

func cmpGeneric(n aparser.Node, want *ebnfref.Node, path string) string {
	switch v := n.(type) {
	case *aparser.LeafNode:
		if want.Prod >= 0 {
			return fmt.Sprintf("%s: leaf %q where production %d (%s) is expected", path, v.Lexeme, want.Prod, want.Head)
		}
		got := fmt.Sprintf("%s %q %s", string(v.Terminal), v.Lexeme, ps(&v.Position))
		exp := fmt.Sprintf("%s %q %s", want.Tok.Kind, want.Tok.Lexeme, tp(want.Tok))
		if got != exp {
			return fmt.Sprintf("%s: leaf is [%s], the source has [%s]", path, got, exp)
		}
	case *aparser.InternalNode:
		if want.Prod < 0 {
			return fmt.Sprintf("%s: interior node %s where token %q is expected", path, v.NonTerminal, want.Tok.Lexeme)
		}
		if string(v.NonTerminal) != want.Head || v.Production == nil || string(v.Production.Head) != want.Head {
			return fmt.Sprintf("%s: node is %s (production %v), expected production %d of %s", path, v.NonTerminal, v.Production, want.Prod, want.Head)
		}
		var body []string
		for _, s := range v.Production.Body {
			body = append(body, s.Name())
		}
		if strings.Join(body, " ") != strings.Join(ebnfref.Bodies[want.Prod], " ") {
			return fmt.Sprintf("%s: node applies %s, expected production %d: %s → %s", path, v.Production, want.Prod, want.Head, strings.Join(ebnfref.Bodies[want.Prod], " "))
		}
		if len(v.Children) != len(want.Kids) {
			return fmt.Sprintf("%s: node has %d children, its production has %d body symbols", path, len(v.Children), len(want.Kids))
		}
		for i := range v.Children {
			if d := cmpGeneric(v.Children[i], want.Kids[i], fmt.Sprintf("%s/%s[%d]", path, want.Head, i)); d != "" {
				return d
			}
		}
	default:
		return fmt.Sprintf("%s: unexpected node type %T", path, n)
	}
	return ""
}

// ---- (b) typed tree: rendered to a canonical string WITH positions, from both sides ------------------

func quoteTerm(t ebnfref.Expr) string {
	switch v := t.(type) {
	case *ebnfref.Tok:
		return v.Name
	case *ebnfref.Str:
		return fmt.Sprintf("%q", v.Lexeme)
	}
	return "?"
}

// wantRHS renders the expected typed tree of the rhs sub-tree n (documented flattening: n-ary concatenation and
// alternation, transparent groups).
func wantRHS(n *ebnfref.Node) (kind string, ops []string, self string) {
	switch n.Prod {
	case 23:
		var all []string
		for _, k := range []*ebnfref.Node{n.Kids[0], n.Kids[1]} {
			kd, o, s := wantRHS(k)
			if kd == "concat" {
				all = append(all, o...)
			} else {
				all = append(all, s)
			}
		}
		return "concat", all, "Concat(" + strings.Join(all, " ") + ")"
	case 24:
		return wantRHS(n.Kids[1])
	case 25, 26, 27:
		_, _, inner := wantRHS(n.Kids[1])
		name := map[int]string{25: "Opt", 26: "Star", 27: "Plus"}[n.Prod]
		return "unary", nil, fmt.Sprintf("%s<%s>(%s)", name, tp(n.Kids[0].Tok), inner)
	case 28, 29:
		var all []string
		sides := []*ebnfref.Node{n.Kids[0]}
		if n.Prod == 28 {
			sides = append(sides, n.Kids[2])
		}
		for _, k := range sides {
			kd, o, s := wantRHS(k)
			if kd == "alt" {
				all = append(all, o...)
			} else {
				all = append(all, s)
			}
		}
		if n.Prod == 29 {
			all = append(all, "Empty")
		}
		return "alt", all, "Alt(" + strings.Join(all, " | ") + ")"
	case 30:
		t := n.Kids[0].Kids[0].Tok
		return "leaf", nil, fmt.Sprintf("NT<%s>(%s)", tp(t), t.Lexeme)
	case 31:
		t := n.Kids[0].Kids[0].Tok
		if n.Kids[0].Prod == 34 {
			return "leaf", nil, fmt.Sprintf("T<%s>(%q)", tp(t), t.Lexeme)
		}
		return "leaf", nil, fmt.Sprintf("T<%s>(%s)", tp(t), t.Lexeme)
	}
	return "?", nil, fmt.Sprintf("?prod%d", n.Prod)
}

func wantRule(n *ebnfref.Node) (lhs string, lhsTok *ebnfref.LexToken, rhs string) {
	t := n.Kids[0].Kids[0].Kids[0].Tok
	rhs = "Empty"
	if n.Prod == 20 {
		_, _, rhs = wantRHS(n.Kids[2])
	}
	return t.Lexeme, t, rhs
}

func wantTyped(root *ebnfref.Node) string {
	var b strings.Builder
	name := root.Kids[0]
	fmt.Fprintf(&b, "Grammar<%s>(%s)\n", tp(name.Kids[0].Tok), name.Kids[1].Tok.Lexeme)
	var decls []*ebnfref.Node
	for d := root.Kids[1]; d.Prod == 2; d = d.Kids[0] {
		decls = append([]*ebnfref.Node{d.Kids[1]}, decls...)
	}
	for _, d := range decls {
		switch d.Prod {
		case 4:
			t := d.Kids[0]
			nm, val := t.Kids[0].Tok, t.Kids[2].Tok
			switch t.Prod {
			case 9:
				fmt.Fprintf(&b, "StringToken<%s>(%s=%q)\n", tp(nm), nm.Lexeme, val.Lexeme)
			case 10:
				fmt.Fprintf(&b, "RegexToken<%s>(%s=/%s/)\n", tp(nm), nm.Lexeme, val.Lexeme)
			case 11:
				fmt.Fprintf(&b, "RegexToken<%s>(%s=/%s/)\n", tp(nm), nm.Lexeme, parser.Predefs[val.Lexeme])
			}
		case 5:
			dir := d.Kids[0]
			assoc := map[int]string{12: "LEFT", 13: "RIGHT", 14: "NONE"}[dir.Prod]
			fmt.Fprintf(&b, "Precedence<%s>(%s", tp(dir.Kids[0].Tok), assoc)
			var hs []*ebnfref.Node
			h := dir.Kids[1]
			for h.Prod == 15 || h.Prod == 16 {
				hs = append([]*ebnfref.Node{h.Kids[1]}, hs...)
				h = h.Kids[0]
			}
			hs = append([]*ebnfref.Node{h.Kids[0]}, hs...)
			for _, x := range hs {
				if x.Prod == 19 {
					lhs, _, rhs := wantRule(x.Kids[1])
					fmt.Fprintf(&b, " ProdHandle<%s>(%s → %s)", tp(x.Kids[0].Tok), lhs, rhs)
				} else {
					t := x.Kids[0].Tok
					if x.Prod == 34 {
						fmt.Fprintf(&b, " TermHandle<%s>(%q)", tp(t), t.Lexeme)
					} else {
						fmt.Fprintf(&b, " TermHandle<%s>(%s)", tp(t), t.Lexeme)
					}
				}
			}
			b.WriteString(")\n")
		case 6:
			lhs, tok, rhs := wantRule(d.Kids[0])
			fmt.Fprintf(&b, "Rule<%s>(%s → %s)\n", tp(tok), lhs, rhs)
		}
	}
	return b.String()
}

func gotRHS(n east.RHS) string {
	switch v := n.(type) {
	case *east.ConcatRHS:
		parts := make([]string, len(v.Ops))
		for i, o := range v.Ops {
			parts[i] = gotRHS(o)
		}
		return "Concat(" + strings.Join(parts, " ") + ")"
	case *east.AltRHS:
		parts := make([]string, len(v.Ops))
		for i, o := range v.Ops {
			parts[i] = gotRHS(o)
		}
		return "Alt(" + strings.Join(parts, " | ") + ")"
	case *east.OptRHS:
		return fmt.Sprintf("Opt<%s>(%s)", ps(v.Position), gotRHS(v.Op))
	case *east.StarRHS:
		return fmt.Sprintf("Star<%s>(%s)", ps(v.Position), gotRHS(v.Op))
	case *east.PlusRHS:
		return fmt.Sprintf("Plus<%s>(%s)", ps(v.Position), gotRHS(v.Op))
	case *east.NonTerminalRHS:
		return fmt.Sprintf("NT<%s>(%s)", ps(v.Position), v.NonTerminal)
	case *east.TerminalRHS:
		return fmt.Sprintf("T<%s>(%s)", ps(v.Position), v.Terminal)
	case *east.EmptyRHS:
		return "Empty"
	case nil:
		return "<nil>"
	}
	return fmt.Sprintf("?%T", n)
}

func gotTyped(g *east.Grammar) string {
	var b strings.Builder
	fmt.Fprintf(&b, "Grammar<%s>(%s)\n", ps(g.Position), g.Name)
	for _, d := range g.Decls {
		switch v := d.(type) {
		case *east.StringTokenDecl:
			fmt.Fprintf(&b, "StringToken<%s>(%s=%q)\n", ps(v.Position), v.Name, v.Value)
		case *east.RegexTokenDecl:
			fmt.Fprintf(&b, "RegexToken<%s>(%s=/%s/)\n", ps(v.Position), v.Name, v.Regex)
		case *east.PrecedenceDecl:
			fmt.Fprintf(&b, "Precedence<%s>(%s", ps(v.Position), v.Associativity)
			for _, h := range v.Handles {
				switch x := h.(type) {
				case *east.TerminalHandle:
					fmt.Fprintf(&b, " TermHandle<%s>(%s)", ps(x.Position), x.Terminal)
				case *east.ProductionHandle:
					fmt.Fprintf(&b, " ProdHandle<%s>(%s → %s)", ps(x.Position), x.LHS, gotRHS(x.RHS))
				}
			}
			b.WriteString(")\n")
		case *east.RuleDecl:
			fmt.Fprintf(&b, "Rule<%s>(%s → %s)\n", ps(v.Position), v.LHS, gotRHS(v.RHS))
		default:
			fmt.Fprintf(&b, "?%T\n", d)
		}
	}
	return b.String()
}

// accessors compares what the typed tree says about itself through its methods (Children, Pos, Traverse) with
// its fields: the children of every interior node are exactly its operands / declarations / handles in order, Pos()
// is the recorded position, and a VLR traversal visits the nodes in pre-order.
func accessors(g *east.Grammar) string {
	var pre []east.Node
	var walk func(n east.Node) string
	walk = func(n east.Node) string {
		pre = append(pre, n)
		var kids []east.Node
		var pos *lexer.Position
		hasPos := true
		switch v := n.(type) {
		case *east.Grammar:
			for _, d := range v.Decls {
				kids = append(kids, d)
			}
			pos = v.Position
		case *east.StringTokenDecl:
			pos = v.Position
		case *east.RegexTokenDecl:
			pos = v.Position
		case *east.PrecedenceDecl:
			for _, h := range v.Handles {
				kids = append(kids, h)
			}
			pos = v.Position
		case *east.TerminalHandle:
			pos = v.Position
		case *east.ProductionHandle:
			kids, pos = []east.Node{v.RHS}, v.Position
		case *east.RuleDecl:
			kids, pos = []east.Node{v.RHS}, v.Position
		case *east.ConcatRHS:
			for _, o := range v.Ops {
				kids = append(kids, o)
			}
			hasPos = false
		case *east.AltRHS:
			for _, o := range v.Ops {
				kids = append(kids, o)
			}
			hasPos = false
		case *east.OptRHS:
			kids, pos = []east.Node{v.Op}, v.Position
		case *east.StarRHS:
			kids, pos = []east.Node{v.Op}, v.Position
		case *east.PlusRHS:
			kids, pos = []east.Node{v.Op}, v.Position
		case *east.NonTerminalRHS:
			pos = v.Position
		case *east.TerminalRHS:
			pos = v.Position
		default:
			hasPos = false
		}
		if hasPos && n.Pos() != pos {
			return fmt.Sprintf("%s: Pos() is %s, the recorded position is %s", n, ps(n.Pos()), ps(pos))
		}
		// a concatenation / alternation has no position of its own: Pos() is "the leftmost position in the input that
		// the node represents", i.e. where its first operand starts (not judged when that operand is an empty alternative)
		if len(kids) > 0 && !hasPos && kids[0] != nil {
			if first := kids[0].Pos(); first != nil {
				if got := n.Pos(); got == nil || *got != *first {
					return fmt.Sprintf("%s: Pos() is %s, its first operand starts at %s", n, ps(got), ps(first))
				}
			}
		}
		if in, ok := n.(east.InternalNode); ok {
			got := in.Children()
			if len(got) != len(kids) {
				return fmt.Sprintf("%s: Children() has %d entries, the node has %d", n, len(got), len(kids))
			}
			for i := range kids {
				if got[i] != kids[i] {
					return fmt.Sprintf("%s: child %d is %v, the node's operand %d is %v", n, i, got[i], i, kids[i])
				}
			}
		} else if len(kids) > 0 {
			return fmt.Sprintf("%s has operands but is not an interior node", n)
		}
		for _, k := range kids {
			if k == nil {
				continue
			}
			if d := walk(k); d != "" {
				return d
			}
		}
		return ""
	}
	if d := walk(g); d != "" {
		return d
	}
	var visited []east.Node
	east.Traverse(g, generic.VLR, func(n east.Node) bool {
		visited = append(visited, n)
		return true
	})
	// nil operands (a rule without body) are not visited by either walk
	var want []east.Node
	for _, n := range pre {
		if n != nil {
			want = append(want, n)
		}
	}
	if len(visited) != len(want) {
		return fmt.Sprintf("a VLR traversal visits %d nodes, the tree has %d", len(visited), len(want))
	}
	for i := range want {
		if visited[i] != want[i] {
			return fmt.Sprintf("a VLR traversal visits %v as node %d, pre-order has %v", visited[i], i, want[i])
		}
	}
	return ""
}

// ---- (c) printing a typed tree back to EBNF ------------------------------------------------------

func printTerm(t string) string {
	if strings.HasPrefix(t, `"`) {
		if u, err := strconv.Unquote(t); err == nil {
			return `"` + u + `"`
		}
	}
	return t
}

func printRHS(n east.RHS, inConcat bool) string {
	switch v := n.(type) {
	case *east.ConcatRHS:
		parts := make([]string, len(v.Ops))
		for i, o := range v.Ops {
			parts[i] = printRHS(o, true)
		}
		return strings.Join(parts, " ")
	case *east.AltRHS:
		parts := []string{}
		for _, o := range v.Ops {
			parts = append(parts, printRHS(o, false))
		}
		s := strings.TrimRight(strings.Join(parts, " | "), " ")
		if inConcat {
			return "( " + s + " )"
		}
		return s
	case *east.OptRHS:
		return "[ " + printRHS(v.Op, false) + " ]"
	case *east.StarRHS:
		return "{ " + printRHS(v.Op, false) + " }"
	case *east.PlusRHS:
		return "{{ " + printRHS(v.Op, false) + " }}"
	case *east.NonTerminalRHS:
		return v.NonTerminal
	case *east.TerminalRHS:
		return printTerm(v.Terminal)
	case *east.EmptyRHS:
		return ""
	}
	return "?"
}

// predefName finds the $NAME of a predefined pattern (a typed tree stores the expanded pattern).
func printTyped(g *east.Grammar) string {
	var b strings.Builder
	fmt.Fprintf(&b, "grammar %s ;\n", g.Name)
	for _, d := range g.Decls {
		switch v := d.(type) {
		case *east.StringTokenDecl:
			fmt.Fprintf(&b, "%s = \"%s\" ;\n", v.Name, v.Value)
		case *east.RegexTokenDecl:
			// a pattern is printed between slashes; a slash inside it must be escaped as it was in the source
			fmt.Fprintf(&b, "%s = /%s/ ;\n", v.Name, v.Regex)
		case *east.PrecedenceDecl:
			assoc := map[lr.Associativity]string{lr.LEFT: "@left", lr.RIGHT: "@right", lr.NONE: "@none"}[v.Associativity]
			b.WriteString(assoc)
			for _, h := range v.Handles {
				switch x := h.(type) {
				case *east.TerminalHandle:
					b.WriteString(" " + printTerm(x.Terminal))
				case *east.ProductionHandle:
					b.WriteString(strings.TrimRight(" < "+x.LHS+" = "+printRHS(x.RHS, false), " ") + " >")
				}
			}
			b.WriteString(" ;\n")
		case *east.RuleDecl:
			b.WriteString(strings.TrimRight(v.LHS+" = "+printRHS(v.RHS, false), " ") + " ;\n")
		}
	}
	return b.String()
}

func stripPos(s string) string {
	var b strings.Builder
	depth := 0
	for _, c := range s {
		switch {
		case c == '<' && depth == 0:
			depth++
		case c == '>' && depth > 0:
			depth--
		case depth == 0:
			b.WriteRune(c)
		}
	}
	return b.String()
}

func astParse(text string) (g *east.Grammar, err error, pan any) {
	defer func() { pan = recover() }()
	g, err = east.Parse("f", strings.NewReader(text))
	return
}

func buildAST(text string) (n aparser.Node, err error, pan any) {
	defer func() { pan = recover() }()
	p, e := parser.New("f", strings.NewReader(text))
	if e != nil {
		return nil, e, nil
	}
	n, err = p.ParseAndBuildAST()
	return
}

func specParse(text string) (s *spec.Spec, err error, pan any) {
	defer func() { pan = recover() }()
	s, err = spec.Parse("f", strings.NewReader(text))
	return
}

func checkText(r *ev.Run, text, family string) {
	in := map[string]any{"Text": text}
	toks, lerr := ebnfref.Tokenize(text)
	if lerr != nil {
		ev.Fatal("harness text not tokenizable: %v", lerr)
	}
	root, serr := ebnfref.ParseTokens(toks)
	if serr != nil {
		ev.Fatal("harness text not a specification: %v\n%s", serr, text)
	}
	r.Add("specs", 1)
	r.Add("specs_"+family, 1)
	r.Distinct(text)
	// (a)
	n, err, pan := buildAST(text)
	switch {
	case pan != nil:
		r.Report("", fmt.Sprintf("ParseAndBuildAST panics on a valid specification: %v\n%s", pan, text), in)
	case err != nil:
		r.Report("", fmt.Sprintf("ParseAndBuildAST rejects a valid specification: %v\n%s", err, text), in)
	case n == nil:
		r.Report("", "ParseAndBuildAST returned (nil, nil)\n"+text, in)
	default:
		if d := cmpGeneric(n, root, ""); d != "" {
			r.Report("", fmt.Sprintf("parse tree does not reflect the source: %s\n%s", d, text), in)
		}
	}
	// (b)
	g, err, pan := astParse(text)
	switch {
	case pan != nil:
		r.Report("", fmt.Sprintf("ast.Parse panics on a valid specification: %v\n%s", pan, text), in)
		return
	case err != nil:
		r.Report("", fmt.Sprintf("ast.Parse rejects a valid specification: %v\n%s", err, text), in)
		return
	case g == nil:
		r.Report("", "ast.Parse returned (nil, nil)\n"+text, in)
		return
	}
	if d := accessors(g); d != "" {
		r.Report("", fmt.Sprintf("the typed tree's accessor methods disagree with its fields: %s\n%s", d, text), in)
	}
	want, got := wantTyped(root), gotTyped(g)
	if want != got {
		r.Report("", fmt.Sprintf("typed tree differs from what was written:\nexpected:\n%sgot:\n%s--- source ---\n%s", want, got, text), in)
		return
	}
	// (c) round trip through the harness printer
	t2 := printTyped(g)
	g2, err, pan := astParse(t2)
	if pan != nil || err != nil || g2 == nil {
		if pan == nil {
			r.Report("", fmt.Sprintf("the printed typed tree is not parsed back (%v):\n%s--- source ---\n%s", err, t2, text), in)
		}
		return
	}
	t3 := printTyped(g2)
	g3, err, pan := astParse(t3)
	if pan != nil || err != nil || g3 == nil {
		if pan == nil {
			r.Report("", fmt.Sprintf("the re-printed typed tree is not parsed back (%v):\n%s", err, t3), in)
		}
		return
	}
	switch {
	case t2 != t3:
		r.Report("", fmt.Sprintf("printing is not stable:\nfirst print:\n%ssecond print:\n%s", t2, t3), in)
	case !g2.Equal(g3) || !g3.Equal(g2):
		r.Report("", fmt.Sprintf("re-parsed trees are not Equal:\n%s", t2), in)
	case stripPos(gotTyped(g2)) != stripPos(got):
		r.Report("", fmt.Sprintf("the tree parsed from the print differs from the original tree:\noriginal:\n%sre-parsed:\n%s", stripPos(got), stripPos(gotTyped(g2))), in)
	}
	// (d) grammar obtained from the typed tree's structure = grammar emerge derives directly
	s, err, pan := specParse(text)
	if pan != nil || err != nil || s == nil {
		r.Add("not_accepted_by_spec_parse", 1)
		return
	}
	r.Add("language_comparisons", 1)
	back, perr := ebnfref.ParseSpec(t2) // the print of emerge's typed tree, read by the reference
	if perr != nil {
		r.Report("", fmt.Sprintf("the printed typed tree is not a specification for the reference: %v\n%s", perr, t2), in)
		return
	}
	const n4 = 4
	wantL := back.Languages(n4)
	gotL := cfgref.Languages(s.Grammar, n4)
	for head, l := range wantL {
		if eq, w, inTree := ebnfref.Equal(l, gotL[head]); !eq {
			r.Report("", fmt.Sprintf("rule %s: sentence [%s] distinguishes the grammar read off the typed tree (has it: %v) from the grammar spec.Parse derives\n%s", head, ebnfref.Show(w), inTree, text), in)
			break
		}
	}
}

func main() {
	r := ev.Start("C11", "exploration")
	if r.Replay != "" {
		var in struct{ Text string }
		if err := r.LoadReplay(&in); err != nil {
			ev.Fatal("%v", err)
		}
		checkText(r, in.Text, "replay")
		r.Finish()
	}
	if r.Fork(16) {
		r.Set("rule", "the specification space shared with C18 (every right-hand side up to the node bound, every declaration sequence of every kind up to the length bound with semicolon variants, nestings to depth 4, specifications without declarations), canonical layout, a vertical layout and a staircase layout (one token per line with shrinking indentation); plus, for 9 kinds of single difference (rule body, handle body, token definition, associativity, terminal handles, names), every pair of specifications that differ only there must not compare Equal; non-trivial = any specification; distinct by text")
		r.Set("evaluations", r.Get("specs"))
		r.Finish()
	}
	r.Set("exhaustive", true)
	n := 0
	ebnfref.SpecSpace(r.Quick(), func(sp *ebnfref.Spec, family string) {
		n++
		if !r.MineIdx(n) {
			return
		}
		if r.Expired() {
			r.Set("exhaustive", false)
			return
		}
		text := sp.Text()
		checkText(r, text, family)
		if n%5 == 0 {
			alt, _ := ebnfref.Render(sp.Tokens(), func(i int) string {
				if i == 0 {
					return " "
				}
				return "\n  "
			}, "")
			checkText(r, alt, family+"_vertical")
		}
		if n%5 == 2 {
			// one token per line with shrinking indentation: later tokens start in smaller columns than earlier ones
			toks := sp.Tokens()
			alt, _ := ebnfref.Render(toks, func(i int) string {
				if i == 0 {
					return ""
				}
				return "\n" + strings.Repeat(" ", (len(toks)-i)%13)
			}, "\n")
			checkText(r, alt, family+"_staircase")
		}
		if n%1013 == 0 {
			r.Sample(map[string]any{"family": family, "text": text})
		}
	})
	// strings and patterns with escapes
	for i, text := range []string{
		"grammar g ;\nQQ = \"a\\\"b\" ;\nBS = \"\\\\\" ;\nstart = QQ BS \"c\\\"d\" ;\n",
		"grammar g ;\nSL = /a\\/b/ ;\nstart = SL \"|\" \"(\" ;\n",
		"grammar g ;\n@left \"\\\"\" \"+\" ;\nstart = \"\\\"\" | \"+\" ;\n",
	} {
		if r.MineIdx(i) {
			checkText(r, text, "escapes")
		}
	}
	// "an equal tree" must mean something: trees of specifications that differ in ONE place - the body of a rule, the
	// body of a rule handle, a token's value or kind, a directive's associativity, a terminal handle, a name - must
	// not compare Equal (both ways), whatever else is identical (all other tokens keep their positions where possible)
	leaves := []ebnfref.Expr{&ebnfref.NT{Name: "a"}, &ebnfref.NT{Name: "b"}, &ebnfref.Str{Lexeme: "+"}, &ebnfref.Tok{Name: "TK"}}
	var bodies []string
	maxNodes := 3
	if !r.Quick() {
		maxNodes = 4
	}
	for _, level := range ebnfref.Exprs(leaves, maxNodes) {
		for _, e := range level {
			bodies = append(bodies, ebnfref.ExprString(e))
		}
	}
	holes := []struct {
		name, before, after string
		fillers             []string
	}{
		{"rule-body", "grammar g ;\nTK = \"t\" ;\na = \"p\" ;\nb = \"q\" ;\nstart = ", " ;\n", bodies},
		{"handle-body", "grammar g ;\nTK = \"t\" ;\na = \"p\" ;\nb = \"q\" ;\n@left < start = ", " > \"+\" ;\nstart = a ;\n", bodies},
		{"token-definition", "grammar g ;\nTK = ", " ;\nstart = TK ;\n", []string{`"x"`, `"y"`, `/x/`, `/y/`, `$ID`, `$WS`, `"xy"`, `/xy/`}},
		{"associativity", "grammar g ;\n", " \"+\" ;\nstart = \"+\" ;\n", []string{"@left", "@right", "@none"}},
		{"terminal-handle", "grammar g ;\nTK = \"t\" ;\nTL = \"u\" ;\n@left ", " ;\nstart = TK TL \"+\" \"-\" ;\n", []string{`"+"`, `"-"`, `TK`, `TL`, `"+" "-"`, `"-" "+"`, `TK "+"`, `"+" TK`}},
		{"grammar-name", "grammar ", " ;\nstart = \"x\" ;\n", []string{"g", "h", "gg"}},
		{"rule-name", "grammar g ;\nstart = \"x\" ;\n", " = \"y\" ;\n", []string{"a", "b", "ab"}},
		{"handle-name", "grammar g ;\na = \"p\" ;\nb = \"p\" ;\n@right < ", " = \"p\" > ;\nstart = a b ;\n", []string{"a", "b"}},
		{"token-name", "grammar g ;\n", " = \"t\" ;\nstart = \"x\" ;\n", []string{"TK", "TL", "TKK"}},
	}
	pair := 0
	for _, h := range holes {
		type parsed struct {
			text, shape string
			g           *east.Grammar
		}
		var ps []parsed
		for _, f := range h.fillers {
			text := h.before + f + h.after
			g, err, pan := astParse(text)
			if pan != nil || err != nil || g == nil {
				r.Add("discriminating_texts_not_parsed", 1)
				continue
			}
			ps = append(ps, parsed{text, stripPos(gotTyped(g)), g})
		}
		for i := range ps {
			for j := i + 1; j < len(ps); j++ {
				pair++
				if !r.MineIdx(pair) || ps[i].shape == ps[j].shape {
					continue
				}
				r.Add("different_trees_compared", 1)
				if ps[i].g.Equal(ps[j].g) || ps[j].g.Equal(ps[i].g) {
					r.Report("", fmt.Sprintf("two different trees (they differ in the %s) compare Equal:\n%s--- and ---\n%s", h.name, ps[i].text, ps[j].text), map[string]any{"Text": ps[i].text, "Other": ps[j].text})
				}
			}
		}
	}
	// long specifications of simple shape (depth- and length-related limits)
	var sizes []int
	for n := 1; n <= 40; n++ {
		sizes = append(sizes, n)
	}
	sizes = append(sizes, 64, 65, 100, 128, 129, 300)
	if !r.Quick() {
		sizes = append(sizes, 1000, 3000)
	}
	ks := 0
	ebnfref.Scaling(sizes, func(text, family string, n int) {
		ks++
		if r.MineIdx(ks) && !r.Expired() {
			checkText(r, text, "scaling_"+family)
		}
	})
	r.Assume("expected trees are derived from the reference parse tree (ref/ebnfref.ParseTokens) under the documented flattening: n-ary concatenation and alternation, transparent groups; positions are those of the first token of each construct")
	r.Finish()
}
