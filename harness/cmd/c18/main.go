// C18: parse callbacks fire in derivation order with the right values; an error from a callback aborts the parse.
package main

import (
	"errors"
	"fmt"
	"io"
	"strings"

	"github.com/moorara/algo/lexer"
	aparser "github.com/moorara/algo/parser"
	"github.com/moorara/algo/parser/lr"

	"github.com/gardenbed/emerge/internal/ebnf/parser"
	"github.com/gardenbed/emerge/verif/ev"
	"github.com/gardenbed/emerge/verif/ref/ebnfref"
)

var sentinel = errors.New("sentinel error of the harness")

type posT struct {
	ok                bool
	off, line, column int
}

func (p posT) String() string {
	if !p.ok {
		return "nil"
	}
	return fmt.Sprintf("%d:%d@%d", p.line, p.column, p.off)
}

// expected event stream and evaluation records derived from the reference parse tree
type expectation struct {
	events []string // "T kind lexeme pos" / "P index"
	evals  []string // per reduction: "index(args…) first-pos"
	rootID int
}

// resultModes are the kinds of results the evaluator returns: whatever it returns - nil included - is the head's value.
var resultModes = []struct {
	name  string
	value func(n int) any
}{
	{"a fresh number per call", func(n int) any { return n }},
	{"nil for every call", func(n int) any { return nil }},
	{"nil for every other call", func(n int) any {
		if n%2 == 1 {
			return nil
		}
		return n
	}},
	{"a string per call", func(n int) any { return fmt.Sprintf("v%d", n) }},
}

// render shows a value the way both sides print it.
func render(v any) string {
	switch x := v.(type) {
	case nil:
		return "nil"
	case string:
		return fmt.Sprintf("%q", x)
	case int:
		return fmt.Sprintf("#%d", x)
	}
	return fmt.Sprintf("?%v", v)
}

func expect(root *ebnfref.Node, mode int) *expectation {
	x := &expectation{}
	id := 0
	var walk func(n *ebnfref.Node) (val string, pos posT)
	walk = func(n *ebnfref.Node) (string, posT) {
		if n.Prod < 0 {
			p := posT{true, n.Tok.Offset, n.Tok.Line, n.Tok.Column}
			x.events = append(x.events, fmt.Sprintf("T %s %q %s", n.Tok.Kind, n.Tok.Lexeme, p))
			return fmt.Sprintf("%q", n.Tok.Lexeme), p
		}
		var args []string
		var first posT
		for i, k := range n.Kids {
			v, p := walk(k)
			args = append(args, v+"@"+p.String())
			if i == 0 {
				first = p
			}
		}
		id++
		x.events = append(x.events, fmt.Sprintf("P %d", n.Prod))
		x.evals = append(x.evals, fmt.Sprintf("%d(%s)", n.Prod, strings.Join(args, ", ")))
		x.rootID = id
		return render(resultModes[mode].value(id)), first
	}
	walk(root)
	return x
}

func posOf(p *lexer.Position) posT {
	if p == nil {
		return posT{}
	}
	return posT{true, p.Offset, p.Line, p.Column}
}

// runParse records the real event stream; failAt > 0 makes the failAt-th callback return the sentinel.
func runParse(text string, failAt int, failErr error) (events []string, err error, after int, pan any) {
	return runParseWith(text, failAt, failErr, true, true)
}

// runParseWith: both callbacks of Parse are optional; withTok / withProd say which ones are given.
func runParseWith(text string, failAt int, failErr error, withTok, withProd bool) (events []string, err error, after int, pan any) {
	defer func() {
		if p := recover(); p != nil {
			pan = p
		}
	}()
	p, e := parser.New("f", strings.NewReader(text))
	if e != nil {
		return nil, e, 0, nil
	}
	n := 0
	failed := false
	step := func() error {
		n++
		if failed {
			after++
		}
		if n == failAt {
			failed = true
			return failErr
		}
		return nil
	}
	var tokF func(*lexer.Token) error
	var prodF func(int) error
	if withTok {
		tokF = func(t *lexer.Token) error {
			events = append(events, fmt.Sprintf("T %s %q %s", string(t.Terminal), t.Lexeme, posOf(&t.Pos)))
			return step()
		}
	}
	if withProd {
		prodF = func(i int) error {
			events = append(events, fmt.Sprintf("P %d", i))
			return step()
		}
	}
	err = p.Parse(tokF, prodF)
	return
}

func runEval(text string, failAt int, failErr error, mode int) (evals []string, rootVal string, err error, after int, pan any) {
	defer func() {
		if p := recover(); p != nil {
			pan = p
		}
	}()
	p, e := parser.New("f", strings.NewReader(text))
	if e != nil {
		return nil, "", e, 0, nil
	}
	n := 0
	failed := false
	show := func(v *lr.Value) string {
		if v == nil {
			return "<nil value>"
		}
		return render(v.Val) + "@" + posOf(v.Pos).String()
	}
	root, err := p.ParseAndEvaluate(func(i int, rhs []*lr.Value) (any, error) {
		n++
		if failed {
			after++
		}
		args := make([]string, len(rhs))
		for k, v := range rhs {
			args[k] = show(v)
		}
		evals = append(evals, fmt.Sprintf("%d(%s)", i, strings.Join(args, ", ")))
		if n == failAt {
			failed = true
			return nil, failErr
		}
		return resultModes[mode].value(n), nil
	})
	if root != nil {
		rootVal = show(root)
	}
	return
}

func diff(a, b []string) string {
	for i := 0; i < len(a) || i < len(b); i++ {
		var x, y string
		if i < len(a) {
			x = a[i]
		}
		if i < len(b) {
			y = b[i]
		}
		if x != y {
			return fmt.Sprintf("at step %d: expected [%s], got [%s]", i+1, x, y)
		}
	}
	return ""
}

func checkText(r *ev.Run, text, family string, faults bool) {
	in := map[string]any{"Text": text}
	toks, lerr := ebnfref.Tokenize(text)
	if lerr != nil {
		ev.Fatal("harness text not tokenizable: %v", lerr)
	}
	root, serr := ebnfref.ParseTokens(toks)
	if serr != nil {
		ev.Fatal("harness text not a specification: %v\n%s", serr, text)
	}
	x := expect(root, 0)
	r.Add("specs", 1)
	r.Add("specs_"+family, 1)
	r.Distinct(text)
	events, err, _, pan := runParse(text, 0, nil)
	if pan != nil {
		r.Add("panics_left_to_C14", 1)
		return
	}
	r.Add("executions", 1)
	if err != nil {
		r.Report("", fmt.Sprintf("Parser.Parse rejects a valid specification: %v\n%s", err, text), in)
		return
	}
	if d := diff(x.events, events); d != "" {
		r.Report("", fmt.Sprintf("Parser.Parse callback sequence differs from the reverse rightmost derivation %s\n%s", d, text), in)
	}
	// both callbacks are optional: with only one of them (or none) the other stream must be what it was
	for _, sub := range []struct {
		name      string
		tok, prod bool
		prefix    string
	}{{"only the token callback", true, false, "T "}, {"only the production callback", false, true, "P "}, {"no callback", false, false, "-"}} {
		var want []string
		for _, e := range x.events {
			if strings.HasPrefix(e, sub.prefix) {
				want = append(want, e)
			}
		}
		got, err, _, pan := runParseWith(text, 0, nil, sub.tok, sub.prod)
		r.Add("executions", 1)
		switch {
		case pan != nil:
			r.Report("", fmt.Sprintf("Parser.Parse with %s panics: %v\n%s", sub.name, pan, text), in)
		case err != nil:
			r.Report("", fmt.Sprintf("Parser.Parse with %s rejects a valid specification: %v\n%s", sub.name, err, text), in)
		default:
			if d := diff(want, got); d != "" {
				r.Report("", fmt.Sprintf("Parser.Parse with %s: the callback sequence differs from the one observed with both callbacks %s\n%s", sub.name, d, text), in)
			}
		}
		if !faults || len(want) == 0 || (r.Quick() && r.Get("specs")%4 != 0) {
			continue // quick: the fault sweep with a single callback for every fourth specification
		}
		for k := 1; k <= len(want); k++ {
			ev2, err, after, pan := runParseWith(text, k, sentinel, sub.tok, sub.prod)
			r.Add("executions", 1)
			r.Add("fault_executions", 1)
			if pan != nil {
				continue
			}
			rep := map[string]any{"Text": text, "FailAt": k}
			switch {
			case err == nil:
				r.Report("", fmt.Sprintf("Parser.Parse with %s succeeds although callback %d of %d returned an error\n%s", sub.name, k, len(want), text), rep)
			case !errors.Is(err, sentinel):
				r.Report("", fmt.Sprintf("Parser.Parse with %s returns %q, not the error returned by callback %d\n%s", sub.name, err, k, text), rep)
			case after > 0 || len(ev2) != k:
				r.Report("", fmt.Sprintf("Parser.Parse with %s invoked %d callbacks after callback %d failed (events %d)\n%s", sub.name, after, k, len(ev2), text), rep)
			}
		}
	}
	for mode := range resultModes {
		xm := x
		if mode > 0 {
			xm = expect(root, mode)
		}
		evals, rootVal, err, _, pan := runEval(text, 0, nil, mode)
		r.Add("executions", 1)
		if pan != nil {
			r.Add("panics_left_to_C14", 1)
		} else if err != nil {
			r.Report("", fmt.Sprintf("ParseAndEvaluate rejects a valid specification: %v\n%s", err, text), in)
		} else {
			if d := diff(xm.evals, evals); d != "" {
				r.Report("", fmt.Sprintf("ParseAndEvaluate (evaluator returning %s) passes other values than the body symbols' %s\n%s", resultModes[mode].name, d, text), in)
			}
			var rootPos posT
			if len(toks) > 0 {
				rootPos = posT{true, toks[0].Offset, toks[0].Line, toks[0].Column}
			}
			if want := render(resultModes[mode].value(xm.rootID)) + "@" + rootPos.String(); rootVal != want {
				r.Report("", fmt.Sprintf("ParseAndEvaluate (evaluator returning %s) returns %s, expected the value of the last reduction %s\n%s", resultModes[mode].name, rootVal, want, text), in)
			}
		}
	}
	if !faults {
		return
	}
	// fault dimension: every choice of the failing callback
	for _, id := range identities {
		for k := 1; k <= len(x.events); k++ {
			ev2, err, after, pan := runParse(text, k, id.err)
			r.Add("executions", 1)
			r.Add("fault_executions", 1)
			if pan != nil {
				continue
			}
			rep := map[string]any{"Text": text, "FailAt": k}
			switch {
			case err == nil:
				r.Report("", fmt.Sprintf("Parser.Parse succeeds although callback %d of %d returned an error (%s)\n%s", k, len(x.events), id.name, text), rep)
			case !errors.Is(err, id.err):
				r.Report("", fmt.Sprintf("Parser.Parse returns %q, not the error returned by callback %d (%s)\n%s", err, k, id.name, text), rep)
			case after > 0 || len(ev2) != k:
				r.Report("", fmt.Sprintf("Parser.Parse invoked %d callbacks after callback %d failed with %s (events %d)\n%s", after, k, id.name, len(ev2), text), rep)
			}
		}
		for k := 1; k <= len(x.evals); k++ {
			ev2, _, err, after, pan := runEval(text, k, id.err, 0)
			r.Add("executions", 1)
			r.Add("fault_executions", 1)
			if pan != nil {
				continue
			}
			rep := map[string]any{"Text": text, "FailAt": k}
			switch {
			case err == nil:
				r.Report("", fmt.Sprintf("ParseAndEvaluate succeeds although evaluation %d of %d returned an error (%s)\n%s", k, len(x.evals), id.name, text), rep)
			case !errors.Is(err, id.err):
				r.Report("", fmt.Sprintf("ParseAndEvaluate returns %q, not the error returned by evaluation %d (%s)\n%s", err, k, id.name, text), rep)
			case after > 0 || len(ev2) != k:
				r.Report("", fmt.Sprintf("ParseAndEvaluate invoked %d evaluations after evaluation %d failed with %s\n%s", after, k, id.name, text), rep)
			}
		}
	}
}

// identities are the error values a failing callback returns: the property speaks of any error, and the parser handles
// some errors of its own specially (end of input from the scanner, its own ParseError).
var identities = []struct {
	name string
	err  error
}{
	{"a plain error", sentinel},
	{"io.EOF itself", io.EOF},
	{"an error wrapping io.EOF", fmt.Errorf("callback: %w", io.EOF)},
	{"a *parser.ParseError", &aparser.ParseError{Description: "callback failure of the harness"}},
}

func main() {
	r := ev.Start("C18", "exploration")
	if r.Replay != "" {
		var in struct{ Text string }
		if err := r.LoadReplay(&in); err != nil {
			ev.Fatal("%v", err)
		}
		checkText(r, in.Text, "replay", true)
		r.Finish()
	}
	if r.Fork(16) {
		r.Set("rule", "the specification space shared with C11 (every right-hand side up to the node bound, every declaration sequence up to the length bound with semicolon variants, bracket nestings, empty specifications), each in canonical and in one-token-per-line layout; per specification one fault-free execution per entry point and per kind of evaluator result (fresh numbers, nil always, nil every other call, strings) plus one execution per callback index and per error identity (a plain error, io.EOF, an error wrapping io.EOF, a *parser.ParseError) with that callback failing; Parser.Parse also with only the token callback, only the production callback and none (both are optional): the remaining stream must be unchanged, and every index of it is made to fail; non-trivial = any specification; distinct by text")
		r.Set("evaluations", r.Get("executions"))
		r.Finish()
	}
	r.Set("exhaustive", true)
	n := 0
	ebnfref.SpecSpace(r.Quick(), func(sp *ebnfref.Spec, family string) {
		n++
		if !r.MineIdx(n) {
			return
		}
		if r.Expired() {
			r.Set("exhaustive", false)
			return
		}
		text := sp.Text()
		// the fault sweep is quadratic in the number of callbacks: all specifications in thorough,
		// rhs/nesting families and short declaration sequences in quick
		faults := !r.Quick() || !strings.HasPrefix(family, "decls3")
		checkText(r, text, family, faults)
		if n%7 == 0 {
			// a second layout moves every line/column
			toks := sp.Tokens()
			alt, _ := ebnfref.Render(toks, func(i int) string {
				if i == 0 {
					return "\n  "
				}
				return "\n\t"
			}, "")
			checkText(r, alt, family+"_vertical", false)
		}
		if n%1013 == 0 {
			r.Sample(map[string]any{"family": family, "text": text})
		}
	})
	// long specifications of simple shape (depth- and length-related limits)
	var sizes []int
	for n := 1; n <= 40; n++ {
		sizes = append(sizes, n)
	}
	sizes = append(sizes, 64, 65, 100, 128, 129, 300, 511, 513, 1023, 1025, 1100) // around the powers of two where stacks and buffers grow
	if !r.Quick() {
		sizes = append(sizes, 1000, 3000)
	}
	ks := 0
	ebnfref.Scaling(sizes, func(text, family string, n int) {
		ks++
		if r.MineIdx(ks) && !r.Expired() {
			checkText(r, text, "scaling_"+family, false)
		}
	})
	r.Assume("expected callback order = post-order traversal of the reference parse tree (ref/ebnfref.ParseTokens), which is the reverse rightmost derivation under the documented disambiguation")
	r.Finish()
}
