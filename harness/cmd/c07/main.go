// C07: a specification is rejected iff it is ill-formed; every terminal gets exactly one definition.
package main

import (
	"fmt"
	"os"
	"regexp"
	"sort"
	"strings"

	"github.com/gardenbed/emerge/internal/ebnf/parser"
	"github.com/gardenbed/emerge/verif/ev"
	"github.com/gardenbed/emerge/verif/impl"
	"github.com/gardenbed/emerge/verif/ref/ebnfref"
	"github.com/gardenbed/emerge/verif/ref/regexref"
)

var atoms = []string{
	`AA = "x"`, `AA = /x+/`, `AA = $ID`, `AA = $NOPE`, `BB = "x"`, `BB = /[a/`, `BB = "w"`,
	`start = AA ;`, `start = UU ;`, `start = "x" ;`, `start = "y" z ;`, `z = "y" ;`, `q = BB ;`,
	`@left AA ;`, `@right AA ;`, `@left "y" ;`, `@none < z = "y" > ;`,
	`start = AA BB ;`, `q = BB AA | BB ;`,
	// a string literal spelled like a token name: two different terminals (the literal defines itself)
	`q = "AA" ;`, `start = AA "AA" ;`,
	// patterns with a blank at an edge, an escaped slash, a literal with escapes: the value is the text as written
	`AA = / x/`, `BB = /x /`, `BB = /a\/b /`, `AA = "\"x\\"`,
	// valid patterns that match only the empty text, or hold a piece that does
	`AA = /x{0}/`, `BB = /(y|z){0,0}yy/`,
	// a rule handle that holds a terminal, in second position of its directive: it is the handle of its production, not
	// of the terminal (next to `@left "y"` the specification is well-formed, next to `@none < z = "y" >` it is not)
	`@right "v" < z = "y" > ;`,
}

type renaming struct {
	res []*regexp.Regexp
	to  []string
}

func mkRenaming(pairs ...string) renaming {
	var rn renaming
	for i := 0; i+1 < len(pairs); i += 2 {
		rn.res = append(rn.res, regexp.MustCompile(`\b`+pairs[i]+`\b`))
		rn.to = append(rn.to, pairs[i+1])
	}
	return rn
}

func (rn renaming) apply(text string) string {
	for i, re := range rn.res {
		text = re.ReplaceAllString(text, rn.to[i])
	}
	return text
}

var renamings = []renaming{
	mkRenaming("z", "startup", "q", "restart", "AA", "START", "BB", "STARTS", "UU", "START_UP"),
	mkRenaming("z", "left", "q", "gen_z_opt", "AA", "ID", "BB", "WS", "UU", "EOF"),
}

// The predefined patterns as the harness reads them (anchor: ebnf/parser Predefs): name -> pattern.
var predefs = map[string]string{
	"$WS":      `[\x09\x0A\x0D\x20]`,
	"$DIGIT":   `[0-9]`,
	"$LETTER":  `[A-Za-z]`,
	"$ID":      `[A-Za-z_][0-9A-Za-z_]*`,
	"$NUMBER":  `-?[0-9]+(\.[0-9]+)?`,
	"$STRING":  `"([\x21\x23-\x5B\x5D-\x7E]|\\[\x21-\x7E])+"`,
	"$COMMENT": `(#|//)[\x09\x20-\x7E]*|/\*[\x09\x0A\x0D\x20-\x7E]*?\*/`,
}

type def struct {
	value   string
	isRegex bool
}

type analysis struct {
	required map[string]bool // problems certainly present
	allowed  map[string]bool // problems a diagnostic may name (superset of required)
	defs     map[string]def  // expected definitions when well-formed
}

func analyse(sp *ebnfref.Spec) *analysis {
	a := &analysis{required: map[string]bool{}, allowed: map[string]bool{}, defs: map[string]def{}}
	req := func(k string) { a.required[k], a.allowed[k] = true, true }
	allow := func(k string) { a.allowed[k] = true }
	tokenDefs := map[string][]def{}
	badPredef := map[string]bool{}
	declared := map[string]bool{}
	usedTok := map[string]bool{}
	usedStr := map[string]bool{}
	usedNT := map[string]bool{}
	heads := map[string]bool{}
	var walk func(e ebnfref.Expr)
	walk = func(e ebnfref.Expr) {
		switch v := e.(type) {
		case *ebnfref.Cat:
			for _, o := range v.Ops {
				walk(o)
			}
		case *ebnfref.Alt:
			for _, o := range v.Ops {
				walk(o)
			}
		case *ebnfref.Group:
			walk(v.X)
		case *ebnfref.Opt:
			walk(v.X)
		case *ebnfref.Star:
			walk(v.X)
		case *ebnfref.Plus:
			walk(v.X)
		case *ebnfref.NT:
			usedNT[v.Name] = true
		case *ebnfref.Tok:
			usedTok[v.Name] = true
		case *ebnfref.Str:
			usedStr[v.Lexeme] = true
		}
	}
	rule := func(r *ebnfref.Rule) {
		heads[r.LHS] = true
		if r.RHS != nil {
			walk(r.RHS)
		}
	}
	handleCount := map[string]int{}
	for _, d := range sp.Decls {
		switch v := d.(type) {
		case *ebnfref.TokenDecl:
			declared[v.Name] = true
			switch v.Kind {
			case ebnfref.DefString:
				tokenDefs[v.Name] = append(tokenDefs[v.Name], def{v.Value, false})
			case ebnfref.DefRegex:
				tokenDefs[v.Name] = append(tokenDefs[v.Name], def{v.Value, true})
			default:
				if p, ok := predefs[v.Value]; ok {
					tokenDefs[v.Name] = append(tokenDefs[v.Name], def{p, true})
				} else {
					badPredef[v.Name] = true
					req("predef:" + v.Value)
				}
			}
		case *ebnfref.Rule:
			rule(v)
		case *ebnfref.Directive:
			seen := map[string]bool{}
			for _, h := range v.Handles {
				var key string
				if h.Rule != nil {
					rule(h.Rule)
					key = "rule:" + h.Rule.LHS + "=" + ebnfref.ExprString(orEmpty(h.Rule.RHS))
				} else {
					walk(h.Term)
					key = "term:" + ebnfref.TermName(h.Term)
				}
				if !seen[key] {
					seen[key] = true
					handleCount[key]++
				}
			}
		}
	}
	for k, n := range handleCount {
		if n > 1 {
			req("twolevels:" + k)
		}
	}
	for t := range usedTok {
		if len(tokenDefs[t]) == 0 {
			if badPredef[t] {
				allow("undefined:" + t)
			} else {
				req("undefined:" + t)
			}
		}
	}
	for t, ds := range tokenDefs {
		if len(ds) > 1 {
			req("multi:" + t)
		}
	}
	// values
	single := map[string][]string{}
	any := map[string]map[string]bool{}
	addAny := func(v, t string) {
		if any[v] == nil {
			any[v] = map[string]bool{}
		}
		any[v][t] = true
	}
	for t, ds := range tokenDefs {
		if len(ds) == 1 {
			single[ds[0].value] = append(single[ds[0].value], t)
		}
		for _, d := range ds {
			addAny(d.value, t)
		}
	}
	for s := range usedStr {
		single[s] = append(single[s], "lit:"+s)
		addAny(s, "lit:"+s)
	}
	for v, ts := range single {
		if len(ts) > 1 {
			req("samevalue:" + v)
		}
	}
	for v, ts := range any {
		if len(ts) > 1 {
			allow("samevalue:" + v)
		}
	}
	for n := range usedNT {
		if !heads[n] {
			req("noprod:" + n)
		}
	}
	if !heads["start"] {
		req("nostart")
		allow("noprod:start")
	}
	for t, ds := range tokenDefs {
		for _, d := range ds {
			if d.isRegex {
				if _, err := regexref.Parse(d.value); err != nil {
					req("badpattern:" + t)
				}
			}
		}
	}
	// expected definitions
	for t, ds := range tokenDefs {
		if len(ds) == 1 {
			a.defs[t] = ds[0]
		}
	}
	for s := range usedStr {
		a.defs[s] = def{s, false}
	}
	return a
}

func orEmpty(e ebnfref.Expr) ebnfref.Expr {
	if e == nil {
		return &ebnfref.Eps{}
	}
	return e
}

var diagTable = []struct {
	re   *regexp.Regexp
	kind func(m []string) string
}{
	{regexp.MustCompile(`no definition for terminal "?([^"\s]+)"?`), func(m []string) string { return "undefined:" + m[1] }},
	{regexp.MustCompile(`multiple definitions for terminal "?([^"\s:]+)"?`), func(m []string) string { return "multi:" + m[1] }},
	{regexp.MustCompile(`multiple definitions with the same value: "(.*)"`), func(m []string) string { return "samevalue:" + m[1] }},
	{regexp.MustCompile(`invalid predefined regex: (\S+)`), func(m []string) string { return "predef:" + m[1] }},
	{regexp.MustCompile(`missing production rule with the start symbol`), func(m []string) string { return "nostart" }},
	{regexp.MustCompile(`no production rule for start symbol`), func(m []string) string { return "nostart" }},
	{regexp.MustCompile(`start symbol \S+ not in the set of non-terminal symbols`), func(m []string) string { return "nostart" }},
	{regexp.MustCompile(`no production rule for non-terminal symbol (\S+)`), func(m []string) string { return "noprod:" + m[1] }},
	{regexp.MustCompile(`appeared in more than one precedence level`), func(m []string) string { return "twolevels:*" }},
	{regexp.MustCompile(`^\s*(?:•\s*)?"?([A-Z][A-Z0-9_]*)"?: invalid regular expression`), func(m []string) string { return "badpattern:" + m[1] }},
}

// classify maps diagnostic lines to problem kinds; unknown lines are returned separately.
func classify(msg string) (named []string, unknown []string) {
	for _, line := range strings.Split(msg, "\n") {
		t := strings.TrimSpace(line)
		if t == "" || regexp.MustCompile(`^\d+ errors? occurred:?$`).MatchString(t) || regexp.MustCompile(`^(•\s*)?(f\.g:\d+:\d+|<nil>)(: \S+)?$`).MatchString(t) {
			continue
		}
		hit := false
		for _, d := range diagTable {
			if m := d.re.FindStringSubmatch(line); m != nil {
				named = append(named, d.kind(m))
				hit = true
				break
			}
		}
		if !hit {
			unknown = append(unknown, t)
		}
	}
	return
}

func keys(m map[string]bool) []string {
	out := []string{}
	for k := range m {
		out = append(out, k)
	}
	sort.Strings(out)
	return out
}

func checkText(r *ev.Run, text string) {
	in := map[string]any{"Text": text}
	sp, err := ebnfref.ParseSpec(text)
	if err != nil {
		ev.Fatal("harness text is not syntactically valid: %v\n%s", err, text)
	}
	a := analyse(sp)
	// Known-finding predicate "literal-spelled-like-token": emerge names a string literal's terminal by its text and a
	// token's terminal by its name, in one name space; a literal whose text is the name of a token written in the same
	// specification is therefore merged with that token (or reported as its second definition), depending on the order.
	class := ""
	if literalSpelledLikeToken(sp) {
		class = "literal-spelled-like-token"
		r.Add("specs_with_a_literal_spelled_like_a_token", 1)
	}
	res := impl.Parse("f.g", text)
	r.Add("specs", 1)
	if res.Panic != "" {
		r.Add("panics_left_to_C14", 1)
		return
	}
	if res.NilNil {
		r.Report("", "spec.Parse returned (nil, nil)\n"+text, in)
		return
	}
	rejected := !res.OK()
	msg := res.Err
	if !rejected {
		// patterns are validated when the scanner automaton is built
		func() {
			defer func() {
				if p := recover(); p != nil {
					r.Add("panics_left_to_C14", 1)
				}
			}()
			if _, _, err := res.Spec.DFA(); err != nil {
				// a definition conflict is C03's business; any other refusal to build the scanner automaton rejects the
				// specification on account of one of its patterns
				if !strings.Contains(err.Error(), "conflicting definitions") {
					rejected, msg = true, err.Error()
				}
			}
		}()
	}
	borderline := len(a.required) == 0 && len(a.allowed) > 0
	switch {
	case borderline:
		r.Add("borderline_not_judged", 1)
	case rejected && len(a.required) == 0:
		r.Report(class, fmt.Sprintf("a well-formed specification is rejected: %s\n%s", msg, text), in)
		return
	case !rejected && len(a.required) > 0:
		r.Report(class, fmt.Sprintf("an ill-formed specification is accepted; problems present: %v\n%s", keys(a.required), text), in)
		return
	}
	if rejected {
		r.Add("rejected", 1)
		r.Distinct(text)
		named, unknown := classify(msg)
		if len(unknown) > 0 {
			r.Add("diagnostic_lines_not_classified", len(unknown))
			if os.Getenv("C07_TRACE") != "" {
				fmt.Fprintf(os.Stderr, "unknown: %q\n", unknown)
			}
		}
		hit := false
		for _, k := range named {
			ok := a.allowed[k]
			if k == "twolevels:*" {
				for x := range a.allowed {
					ok = ok || strings.HasPrefix(x, "twolevels:")
				}
			}
			if !ok {
				r.Report(class, fmt.Sprintf("the diagnostics name a problem that is not present: %s (present: %v)\n%s\n--- diagnostics ---\n%s", k, keys(a.allowed), text, msg), in)
				return
			}
			if a.required[k] || k == "twolevels:*" {
				hit = true
			}
		}
		if !hit && !borderline && len(unknown) == 0 {
			r.Report(class, fmt.Sprintf("the diagnostics name none of the problems present %v\n%s\n--- diagnostics ---\n%s", keys(a.required), text, msg), in)
		}
		return
	}
	r.Add("accepted", 1)
	r.Distinct(text)
	// every terminal of the grammar has exactly one definition, with the value written
	got := map[string][]impl.Def{}
	for _, d := range res.Defs {
		got[d.Terminal] = append(got[d.Terminal], d)
	}
	for _, t := range res.Terms {
		ds := got[t]
		want, known := a.defs[t]
		switch {
		case len(ds) != 1:
			r.Report(class, fmt.Sprintf("terminal %q has %d definitions in the accepted specification\n%s", t, len(ds), text), in)
		case !known:
			r.Report(class, fmt.Sprintf("terminal %q of the derived grammar is not written in the specification\n%s", t, text), in)
		case ds[0].Value != want.value || ds[0].IsRegex != want.isRegex:
			r.Report(class, fmt.Sprintf("terminal %q is defined as (%q, pattern=%v), the specification says (%q, pattern=%v)\n%s", t, ds[0].Value, ds[0].IsRegex, want.value, want.isRegex, text), in)
		}
	}
	for t := range a.defs {
		found := false
		for _, x := range res.Terms {
			found = found || x == t
		}
		if !found {
			r.Report(class, fmt.Sprintf("terminal %q written in the specification is missing from the derived grammar\n%s", t, text), in)
		}
	}
	if len(res.Defs) != len(res.Terms) {
		r.Report(class, fmt.Sprintf("%d definitions for %d terminals\n%s", len(res.Defs), len(res.Terms), text), in)
	}
}

// literalSpelledLikeToken reports whether some string literal of the specification has the text of a token name that
// is declared or used in it.
func literalSpelledLikeToken(sp *ebnfref.Spec) bool {
	toks, lits := map[string]bool{}, map[string]bool{}
	var walk func(e ebnfref.Expr)
	walk = func(e ebnfref.Expr) {
		switch v := e.(type) {
		case *ebnfref.Cat:
			for _, o := range v.Ops {
				walk(o)
			}
		case *ebnfref.Alt:
			for _, o := range v.Ops {
				walk(o)
			}
		case *ebnfref.Group:
			walk(v.X)
		case *ebnfref.Opt:
			walk(v.X)
		case *ebnfref.Star:
			walk(v.X)
		case *ebnfref.Plus:
			walk(v.X)
		case *ebnfref.Tok:
			toks[v.Name] = true
		case *ebnfref.Str:
			lits[v.Lexeme] = true
		}
	}
	for _, d := range sp.Decls {
		switch v := d.(type) {
		case *ebnfref.TokenDecl:
			toks[v.Name] = true
		case *ebnfref.Rule:
			if v.RHS != nil {
				walk(v.RHS)
			}
		case *ebnfref.Directive:
			for _, h := range v.Handles {
				if h.Rule != nil {
					if h.Rule.RHS != nil {
						walk(h.Rule.RHS)
					}
				} else {
					walk(h.Term)
				}
			}
		}
	}
	for l := range lits {
		if toks[l] {
			return true
		}
	}
	return false
}

func main() {
	r := ev.Start("C07", "exploration")
	if r.Replay != "" {
		var in struct{ Text string }
		if err := r.LoadReplay(&in); err != nil {
			ev.Fatal("%v", err)
		}
		checkText(r, in.Text)
		r.Finish()
	}
	// the harness's reading of the predefined patterns must itself be the implementation's table (reported, not fatal)
	if r.Fork(16) {
		r.Set("rule", fmt.Sprintf("every sequence (order matters, repetition allowed) of up to the bound of %d declaration atoms seeding every listed defect and their well-formed counterparts, each also under two renamings of its rules and tokens (names containing `start`, names of predefined patterns and of skipped tokens, a name of the synthesised form); non-trivial = every sequence (distinct by text); evaluations = specifications parsed", len(atoms)))
		r.Set("evaluations", r.Get("specs"))
		r.Finish()
	}
	for name, p := range predefs {
		if s, n := r.ShardInfo(); s == 0 || n == 1 {
			if parser.Predefs[name] != p {
				r.Report("", fmt.Sprintf("predefined name %s expands to %q, documented pattern is %q", name, parser.Predefs[name], p), map[string]any{"Text": "grammar g\nAA = " + name + "\nstart = AA ;\n"})
			}
		}
	}
	r.Set("exhaustive", true)
	maxAtoms := 3
	if !r.Quick() {
		maxAtoms = 4
	}
	r.Set("bound_declarations", maxAtoms)
	var seq []int
	n := 0
	var rec func(k int)
	rec = func(k int) {
		n++
		if r.MineIdx(n) {
			if r.Expired() {
				r.Set("exhaustive", false)
				return
			}
			var b strings.Builder
			b.WriteString("grammar g\n")
			for _, i := range seq {
				b.WriteString(atoms[i] + "\n")
			}
			checkText(r, b.String())
			if n%997 == 0 {
				r.Sample(b.String())
			}
			// the same declarations under other names: names that contain the words the tool itself uses (the start
			// symbol, keywords, predefined names, synthesised names) are names like any other
			for _, rn := range renamings {
				checkText(r, rn.apply(b.String()))
			}
		}
		if k == 0 {
			return
		}
		for i := range atoms {
			seq = append(seq, i)
			rec(k - 1)
			seq = seq[:len(seq)-1]
		}
	}
	rec(maxAtoms)
	// many tokens: n tokens (strings, every third a pattern), all used by one rule, declared before the rule, after it,
	// and all but one before and that one after; then one of them (the first, the second, a middle one, the last)
	// declared a second time with another and with the same value, not declared at all, or given the value of its
	// neighbour - the verdict and the one-definition-per-terminal bookkeeping must not depend on how many there are
	sizes := []int{3, 8, 15, 16, 17, 18, 31, 32, 33, 40}
	if !r.Quick() {
		sizes = append(sizes, 63, 64, 65, 70, 127, 128, 129)
	}
	for _, m := range sizes {
		name := func(i int) string { return fmt.Sprintf("T%03d", i) }
		decl := func(i int, val string) string {
			if i%3 == 2 {
				return fmt.Sprintf("%s = /%s/", name(i), val)
			}
			return fmt.Sprintf("%s = \"%s\"", name(i), val)
		}
		val := func(i int) string { return fmt.Sprintf("v%03d", i) }
		var uses []string
		for i := 0; i < m; i++ {
			uses = append(uses, name(i))
		}
		rule := "start = " + strings.Join(uses, " ") + " ;"
		build := func(before []string, after []string) string {
			return "grammar g\n" + strings.Join(before, "\n") + "\n" + rule + "\n" + strings.Join(after, "\n") + "\n"
		}
		var all []string
		for i := 0; i < m; i++ {
			all = append(all, decl(i, val(i)))
		}
		var texts []string
		texts = append(texts, build(all, nil), build(nil, all))
		for _, i := range []int{0, 1, m / 2, m - 1} {
			var rest []string
			for j := 0; j < m; j++ {
				if j != i {
					rest = append(rest, all[j])
				}
			}
			texts = append(texts,
				build(rest, []string{all[i]}),                 // declared after its use
				build(all, []string{decl(i, "other")}),        // a second definition, another value
				build(all, []string{all[i]}),                  // a second definition, the same value
				build([]string{all[i]}, append(rest, all[i])), // the second definition far from the first
				build(rest, nil),                              // never declared
				build(nil, rest),
			)
			k := (i + 1) % m
			if k != i && k%3 == i%3 {
				same := append([]string{}, all...)
				same[k] = decl(k, val(i))
				texts = append(texts, build(same, nil))
			}
			if m >= 3 {
				k = (i + 3) % m // same kind of definition, the same value: two terminals with one value
				same := append([]string{}, all...)
				same[k] = decl(k, val(i))
				texts = append(texts, build(same, nil), build(nil, same))
			}
		}
		for _, text := range texts {
			n++
			if r.MineIdx(n) && !r.Expired() {
				r.Add("specs_many_tokens", 1)
				checkText(r, text)
			}
		}
	}
	// every predefined name expands to its pattern
	for name := range predefs {
		if r.MineIdx(len(name)) {
			checkText(r, "grammar g\nPP = "+name+"\nstart = PP ;\n")
		}
	}
	r.Assume("a literal and a pattern with the same text are left out of the alphabet (unspecified)")
	r.Assume("diagnostics are classified by a fixed table of message shapes; a line of unknown shape is counted, never judged")
	r.Finish()
}
