// C20: lexical and syntax errors are reported at the first offending token.
package main

import (
	"fmt"
	"regexp"
	"strings"

	"github.com/gardenbed/emerge/internal/ebnf/parser"
	east "github.com/gardenbed/emerge/internal/ebnf/parser/ast"
	"github.com/gardenbed/emerge/internal/ebnf/parser/spec"
	"github.com/gardenbed/emerge/verif/cli"
	"github.com/gardenbed/emerge/verif/ev"
	"github.com/gardenbed/emerge/verif/ref/ebnfref"
	"github.com/gardenbed/emerge/verif/ref/lrref"
)

var kinds = []string{"=", ";", "|", "(", ")", "[", "]", "{", "}", "{{", "}}", "<", ">", "grammar", "@left", "@right", "@none", "IDENT", "TOKEN", "STRING", "REGEX", "PREDEF"}

var bases = []string{
	"grammar a ; start = \"x\" ;",
	"grammar calc ; NUM = /[0-9]+/ ID = $ID ; @left \"+\" \"-\" ; @right < neg = e > ; start = { stmt } ; stmt = ID \"=\" e \";\" | e ; e = e \"+\" e | neg | ( e ) | NUM ; neg = e ;",
	"grammar ops start = [ xs ] {{ ys }} ( zs | \"k\" | ) ; xs = { \"a\" \"b\" } ; ys = QQ | ; zs = ;",
	"grammar h ; @none < e = e e > TK < e = > ; TK = \"t\" start = e ;",
	"grammar n start = [ { ( {{ x }} ) } ] | y ;",
}

func isKind(s string) bool {
	for _, k := range kinds {
		if k == s {
			return true
		}
	}
	return false
}

func docTable() *lrref.Table {
	var prods []lrref.Prod
	for i, h := range ebnfref.Heads {
		p := lrref.Prod{Head: h}
		for _, s := range ebnfref.Bodies[i] {
			p.Body = append(p.Body, lrref.Sym{Name: s, Term: isKind(s)})
		}
		prods = append(prods, p)
	}
	set := func(xs ...string) map[string]bool {
		m := map[string]bool{}
		for _, x := range xs {
			m[x] = true
		}
		return m
	}
	concat := lrref.Prod{Head: "rhs", Body: []lrref.Sym{{Name: "rhs"}, {Name: "rhs"}}}
	return lrref.New("grammar", prods, []lrref.Level{
		{Assoc: "left", Prods: set(concat.String())},
		{Assoc: "left", Terms: set("(", "[", "{", "{{", "IDENT", "TOKEN", "STRING")},
		{Assoc: "right", Terms: set("|")},
		{Assoc: "none", Terms: set("=")},
		{Assoc: "none", Terms: set("@left", "@right", "@none")},
	}).Build()
}

func spell(kind string) ebnfref.Token {
	switch kind {
	case "IDENT":
		return ebnfref.Ident("zz")
	case "TOKEN":
		return ebnfref.TokenName("ZZ")
	case "STRING":
		return ebnfref.StringTok("z")
	case "REGEX":
		return ebnfref.RegexTok("z")
	case "PREDEF":
		return ebnfref.PredefTok("$ID")
	}
	return ebnfref.Keyword(kind)
}

// firstBad returns the index of the first token the reference tables cannot shift (len(toks) if the input is a
// viable prefix but not a sentence; -1 if it is a sentence).
func firstBad(t *lrref.Table, toks []ebnfref.Token) int {
	in := make([]string, len(toks))
	for i, k := range toks {
		in[i] = k.Kind
	}
	_, ok, at := t.Parse(in)
	if ok {
		return -1
	}
	return at
}

// completion searches a continuation (up to depth extra tokens) that makes prefix a sentence for the
// recursive-descent recogniser of the documentation: the witness that the prefix is innocent.
func completion(t *lrref.Table, prefix []ebnfref.Token, depth int) bool {
	kindsOf := func(ts []ebnfref.Token) []string {
		out := make([]string, len(ts))
		for i, k := range ts {
			out[i] = k.Kind
		}
		return out
	}
	type cand struct{ seq []string }
	frontier := []cand{{kindsOf(prefix)}}
	for d := 0; d <= depth; d++ {
		var next []cand
		for _, c := range frontier {
			_, ok, at := t.Parse(c.seq)
			if ok {
				// confirm with the independent recogniser
				lt := make([]ebnfref.LexToken, len(c.seq))
				for i, k := range c.seq {
					lt[i] = ebnfref.LexToken{Kind: k}
				}
				if _, err := ebnfref.ParseTokens(lt); err == nil {
					return true
				}
				continue
			}
			if at < len(c.seq) {
				continue // not even a viable prefix
			}
			if d == depth {
				continue
			}
			for _, k := range kinds {
				next = append(next, cand{append(append([]string{}, c.seq...), k)})
			}
			if len(next) > 200000 {
				break
			}
		}
		frontier = next
		if len(frontier) == 0 {
			break
		}
	}
	return false
}

var posRE = regexp.MustCompile(`f\.g:(\d+):(\d+)`)

type outcome struct {
	ok  bool
	err string
	pan any
}

func runSpec(text string) (o outcome) {
	defer func() {
		if p := recover(); p != nil {
			o = outcome{pan: p}
		}
	}()
	_, err := spec.Parse("f.g", strings.NewReader(text))
	if err != nil {
		return outcome{err: err.Error()}
	}
	return outcome{ok: true}
}

func runAST(text string) (o outcome) {
	defer func() {
		if p := recover(); p != nil {
			o = outcome{pan: p}
		}
	}()
	_, err := east.Parse("f.g", strings.NewReader(text))
	if err != nil {
		return outcome{err: err.Error()}
	}
	return outcome{ok: true}
}

func runParser(text string) (o outcome) {
	defer func() {
		if p := recover(); p != nil {
			o = outcome{pan: p}
		}
	}()
	p, err := parser.New("f.g", strings.NewReader(text))
	if err == nil {
		err = p.Parse(nil, nil)
	}
	if err != nil {
		return outcome{err: err.Error()}
	}
	return outcome{ok: true}
}

// viaCLI gives the text to the real binary as the file f.g: a text that is not a specification must end in a non-zero
// exit status without a success announcement, and the first position standing on stderr must be want ("" = none demanded).
var cliCalls int

func viaCLI(r *ev.Run, text, want string, in any) {
	t, err := cli.Get()
	if err != nil {
		ev.Fatal("%v", err)
	}
	cliCalls++
	if r.Quick() && cliCalls%3 != 0 {
		return // quick: every third text of this worker also goes through the binary
	}
	res := t.Run("f.g", text, "", "-out=.")
	r.Add("cli_runs", 1)
	switch {
	case res.Code == -2:
		r.Report("", "the emerge binary does not exit within 120 s\n"+text, in)
	case res.Trace:
		r.Add("cli_traces_left_to_C14", 1)
	case res.Code == 0 || res.Announced:
		r.Report("", fmt.Sprintf("the emerge binary exits with status %d (success announced: %v) for a text that is not a specification\n%s", res.Code, res.Announced, text), in)
	case want != "":
		pos := posRE.FindAllString(res.Stderr, -1)
		if len(pos) == 0 || pos[0] != want {
			r.Report("", fmt.Sprintf("the emerge binary reports %q on stderr; the first offending token is at %s\n%s", cli.StripEmoji(res.Stderr), want, text), in)
		}
	}
}

type layout struct {
	name string
	sep  func(i int) string
	end  string
}

var layouts = []layout{
	{"one-line", func(i int) string {
		if i == 0 {
			return ""
		}
		return " "
	}, "\n"},
	{"vertical", func(i int) string {
		if i == 0 {
			return "  "
		}
		return "\n   "
	}, ""},
	// CR LF line ends (one line break each), a lone CR between tokens (no line break), comments spanning lines
	{"vertical-crlf", func(i int) string {
		if i == 0 {
			return ""
		}
		return "\r\n "
	}, "\r\n"},
	{"cr-gaps", func(i int) string {
		if i == 0 {
			return "\r"
		}
		if i%3 == 0 {
			return "\r\n\r"
		}
		return "\r"
	}, "\r"},
	{"comment-gaps", func(i int) string {
		switch i % 3 {
		case 0:
			return "/* a\r\n * b\n*/"
		case 1:
			return " // c\r\n\t"
		}
		return " /**/ "
	}, " // end"},
}

type input struct {
	Text   string
	Tokens []string
	Bad    int
}

func checkMutant(r *ev.Run, t *lrref.Table, toks []ebnfref.Token, family string) {
	j := firstBad(t, toks)
	lays := append([]layout{}, layouts...)
	if j >= 0 && j < len(toks) {
		// two more layouts: leading blank lines / blanks that put the offending token at byte offsets 4095 and 4096,
		// i.e. on both sides of the scanner's buffer-half boundary
		_, placed := ebnfref.Render(toks, layouts[0].sep, layouts[0].end)
		for _, target := range []int{4095, 4096} {
			pad := target - placed[j].Offset
			if pad < 0 {
				continue
			}
			lead := strings.Repeat("\n", pad/2) + strings.Repeat(" ", pad-pad/2)
			lays = append(lays, layout{fmt.Sprintf("aligned-%d", target), func(i int) string {
				if i == 0 {
					return lead
				}
				return " "
			}, "\n"})
		}
	}
	for _, lay := range lays {
		text, placed := ebnfref.Render(toks, lay.sep, lay.end)
		r.Add("mutants", 1)
		r.Add("mutants_"+family, 1)
		kindsStr := make([]string, len(toks))
		for i, k := range toks {
			kindsStr[i] = k.Kind
		}
		in := input{Text: text, Tokens: kindsStr, Bad: j}
		a, p := runAST(text), runParser(text)
		if a.pan != nil || p.pan != nil {
			r.Add("panics_left_to_C14", 1)
			continue
		}
		if j < 0 {
			r.Add("still_valid", 1)
			if !a.ok || !p.ok {
				r.Report("", fmt.Sprintf("a syntactically valid specification is rejected: ast.Parse: %q, Parser.Parse: %q\n%s", a.err, p.err, text), in)
			}
			continue
		}
		r.Distinct(text)
		s := runSpec(text)
		if s.pan != nil {
			r.Add("panics_left_to_C14", 1)
			continue
		}
		for _, e := range []struct {
			name string
			o    outcome
		}{{"spec.Parse", s}, {"ast.Parse", a}, {"Parser.Parse", p}} {
			if e.o.ok {
				r.Report("", fmt.Sprintf("%s accepts a text that is not a specification (first offending token index %d)\n%s", e.name, j, text), in)
				continue
			}
			pos := posRE.FindAllStringSubmatch(e.o.err, -1)
			if j < len(toks) {
				want := fmt.Sprintf("f.g:%d:%d", placed[j].Line, placed[j].Col)
				if len(pos) == 0 || pos[0][0] != want {
					r.Report("", fmt.Sprintf("%s reports %q; the first offending token is #%d %q at %s\n%s", e.name, e.o.err, j, toks[j].Text, want, text), in)
				}
			} else if len(pos) > 0 {
				// ended too early: a position, if any, must not lie before the end of the last token
				var l, c int
				fmt.Sscanf(pos[0][0], "f.g:%d:%d", &l, &c)
				last := placed[len(placed)-1]
				if l < last.Line || (l == last.Line && c < last.Col+len(last.Text)) {
					r.Report("", fmt.Sprintf("%s reports %q for an input that merely ends too early; that position points at an earlier token\n%s", e.name, e.o.err, text), in)
				}
			}
		}
		if lay.name == "one-line" || lay.name == "vertical" || strings.HasPrefix(lay.name, "aligned-") {
			want := ""
			if j < len(toks) {
				want = fmt.Sprintf("f.g:%d:%d", placed[j].Line, placed[j].Col)
			}
			viaCLI(r, text, want, in)
		}
		// nothing after the offending token influences the message
		if j < len(toks) && !s.ok {
			for _, suffix := range [][]string{{}, {";"}, {"IDENT", "=", "STRING", ";"}, {")", "@left", "grammar"}} {
				alt := append([]ebnfref.Token{}, toks[:j+1]...)
				for _, k := range suffix {
					alt = append(alt, spell(k))
				}
				t2, _ := ebnfref.Render(alt, lay.sep, lay.end)
				s2 := runSpec(t2)
				r.Add("suffix_variants", 1)
				if s2.pan == nil && s2.err != s.err {
					r.Report("", fmt.Sprintf("the diagnostic depends on what follows the offending token:\n%q\nvs, with a different continuation,\n%q\n%s", s.err, s2.err, t2), input{Text: t2, Tokens: kindsStr, Bad: j})
				}
			}
		}
		// ... nor does text that is no token at all: a NUL character glued to the offending token or after a blank, an
		// unterminated string or comment, a stray character (the scanner must hand over the offending token before it
		// looks at what follows)
		if j < len(toks) && !s.ok && lay.name != "comments" {
			t0, _ := ebnfref.Render(toks[:j+1], lay.sep, "")
			for _, raw := range []string{"\x00", "\x00 b ;", " \x00", "\n\x00\n", " \"open", " /* open", " #", "\n~ ;"} {
				t2 := t0 + raw
				s2 := runSpec(t2)
				r.Add("suffix_variants", 1)
				if s2.pan == nil && s2.err != s.err {
					r.Report("", fmt.Sprintf("the diagnostic depends on what follows the offending token:\n%q\nvs, with the text %q after the offending token,\n%q\n%q", s.err, raw, s2.err, t2), input{Text: t2, Tokens: kindsStr, Bad: j})
				}
			}
		}
		// the prefix before the offending token is innocent: it has an accepted completion
		if lay.name == "one-line" && j > 0 && j <= len(toks) {
			r.Add("prefix_witness_searches", 1)
			if !completion(t, toks[:j], 6) {
				r.Add("prefix_witness_not_found_within_depth", 1)
			}
		}
	}
}

func checkLexical(r *ev.Run, t *lrref.Table, toks []ebnfref.Token, gap int, damage string) {
	// besides the five layouts: the stray text glued to the token before it, to the token after it, and to both
	lays := append([]layout{}, layouts...)
	for _, g := range []struct {
		name        string
		left, right bool
	}{{"glued-left", true, false}, {"glued-right", false, true}, {"glued-both", true, true}} {
		g := g
		lays = append(lays, layout{g.name, func(i int) string {
			switch {
			case i == 0:
				return ""
			case i == gap && g.left, i == gap+1 && g.right:
				return ""
			}
			return " "
		}, "\n"})
	}
	for _, lay := range lays {
		// build text: tokens[:gap] damage tokens[gap:]
		with := append(append(append([]ebnfref.Token{}, toks[:gap]...), ebnfref.Token{Kind: "?", Text: damage}), toks[gap:]...)
		text, _ := ebnfref.Render(with, lay.sep, lay.end)
		_, lerr := ebnfref.Tokenize(text)
		r.Add("mutants", 1)
		r.Add("mutants_lexical", 1)
		in := input{Text: text, Bad: gap}
		if lerr == nil {
			r.Add("lexical_damage_that_is_still_lexically_valid", 1)
			continue
		}
		r.Distinct(text)
		want := fmt.Sprintf("f.g:%d:%d", lerr.Line, lerr.Column)
		// the damage may combine with later text into valid tokens (a '/' finds a later '/'): if the tokens scanned
		// before the lexical error already contain a syntax error, that token is the first offending one
		before, _ := ebnfref.Tokenize(text)
		seq := make([]string, len(before))
		for i, k := range before {
			seq[i] = k.Kind
		}
		if _, _, at := t.Parse(seq); at < len(before) {
			want = fmt.Sprintf("f.g:%d:%d", before[at].Line, before[at].Column)
			r.Add("lexical_damage_preceded_by_syntax_error", 1)
		}
		for _, e := range []struct {
			name string
			o    outcome
		}{{"spec.Parse", runSpec(text)}, {"ast.Parse", runAST(text)}} {
			if e.o.pan != nil {
				continue
			}
			if e.o.ok {
				r.Report("", fmt.Sprintf("%s accepts a text with stray text %q (expected a lexical error at %s)\n%s", e.name, damage, want, text), in)
				continue
			}
			pos := posRE.FindAllString(e.o.err, -1)
			if len(pos) == 0 || pos[0] != want {
				r.Report("", fmt.Sprintf("%s reports %q; the stray text %q starts at %s\n%s", e.name, e.o.err, damage, want, text), in)
			}
		}
		if lay.name == "one-line" || lay.name == "glued-both" {
			viaCLI(r, text, want, in)
		}
	}
}

func main() {
	r := ev.Start("C20", "exploration")
	t := docTable()
	if r.Replay != "" {
		var in input
		if err := r.LoadReplay(&in); err != nil {
			ev.Fatal("%v", err)
		}
		for _, e := range []struct {
			name string
			o    outcome
		}{{"spec.Parse", runSpec(in.Text)}, {"ast.Parse", runAST(in.Text)}, {"Parser.Parse", runParser(in.Text)}} {
			fmt.Printf("replay %s: ok=%v err=%q\n", e.name, e.o.ok, e.o.err)
		}
		toks, lerr := ebnfref.TokensOfText(in.Text)
		if lerr == nil {
			checkMutant(r, t, toks, "replay")
		} else {
			fmt.Println("reference:", lerr)
			r.Report("", "replayed lexical case: "+lerr.Error(), in)
		}
		r.Finish()
	}
	if r.Fork(16) {
		r.Set("rule", "5 valid token sequences (7-70 tokens) x {delete token i, insert each of the 22 kinds before token i, replace token i by each kind, truncate before token i} for every i, and 20 kinds of lexical damage (NUL, control characters and a no-break space among them) in every gap (also glued to the token before it, after it, and both); each in five layouts (one line; one token per line; CR LF line ends; lone CRs between tokens; block and line comments with LF and CR LF inside in every gap); file names with percent signs, blanks, colons and directories; each rejected mutant re-rendered with 4 different continuations after the offending token; the one-line, vertical and boundary-aligned layouts (for stray text: one-line and glued) are also given to the real binary as a file (quick: every third), which must exit non-zero without announcing success and name the same file:line:column first on stderr; non-trivial = a mutant that is not a specification; distinct by text")
		r.Set("evaluations", r.Get("mutants"))
		r.Finish()
	}
	r.Set("exhaustive", true)
	r.OnFinish(func() {
		if t, err := cli.Get(); err == nil {
			t.Close()
		}
	})
	n := 0
	mine := func() bool { n++; return r.MineIdx(n) }
	nb := len(bases)
	if r.Quick() {
		nb = 3
	}
	for bi, src := range bases[:nb] {
		toks, err := ebnfref.TokensOfText(src)
		if err != nil {
			ev.Fatal("base %d: %v", bi, err)
		}
		if firstBad(t, toks) != -1 {
			ev.Fatal("base %d is not a specification", bi)
		}
		if r.Quick() && len(toks) > 40 {
			toks = nil // quick keeps the two short bases and one long one below
		}
		if bi == 1 && r.Quick() {
			toks, _ = ebnfref.TokensOfText("grammar c ; NUM = /[0-9]+/ @left \"+\" < e = e > ; e = e \"+\" e | ( e ) | NUM | ;")
		}
		for i := 0; i <= len(toks); i++ {
			if r.Expired() {
				r.Set("exhaustive", false)
				break
			}
			if i < len(toks) && mine() {
				checkMutant(r, t, append(append([]ebnfref.Token{}, toks[:i]...), toks[i+1:]...), "delete")
			}
			if mine() {
				checkMutant(r, t, append([]ebnfref.Token{}, toks[:i]...), "truncate")
			}
			for _, k := range kinds {
				if mine() {
					checkMutant(r, t, append(append(append([]ebnfref.Token{}, toks[:i]...), spell(k)), toks[i:]...), "insert")
				}
				if i < len(toks) && mine() {
					checkMutant(r, t, append(append(append([]ebnfref.Token{}, toks[:i]...), spell(k)), toks[i+1:]...), "replace")
				}
			}
			for _, dmg := range []string{"#", "é", "0", "_", `"abc`, "/abc", "/* abc", "@lef", "$", "A", "'", "\\", "\x00", "\x00\x00x", "\f", "\v", "\x1b", "\x01", "\x7f", "\u00a0", "%", "%d", "%s%", "\"50%d", "/%v"} {
				if mine() {
					checkLexical(r, t, toks, i, dmg)
				}
			}
		}
	}
	// the file name is part of the diagnostic as it was given: names with a percent sign, blanks, colons, a directory
	// part - for a stray character and for an unexpected token at every position of the shortest base
	if toks, err := ebnfref.TokensOfText(bases[0]); err == nil && r.MineIdx(1) {
		for _, name := range []string{"my%20spec.g", "100%", "%s.g", "a b.g", "dir/sub/x.g", "a:b.g", "x.g:9:9", "é.g", "-"} {
			for i := 0; i <= len(toks); i++ {
				for _, extra := range []ebnfref.Token{{Kind: "?", Text: "#"}, spell(")")} {
					with := append(append(append([]ebnfref.Token{}, toks[:i]...), extra), toks[i:]...)
					text, placed := ebnfref.Render(with, layouts[1].sep, layouts[1].end)
					want := fmt.Sprintf("%s:%d:%d", name, placed[i].Line, placed[i].Col)
					if extra.Kind != "?" {
						j := firstBad(t, with)
						if j < 0 || j >= len(with) {
							continue
						}
						want = fmt.Sprintf("%s:%d:%d", name, placed[j].Line, placed[j].Col)
					}
					r.Add("mutants", 1)
					r.Add("mutants_file_names", 1)
					_, err := spec.Parse(name, strings.NewReader(text))
					_, aerr := east.Parse(name, strings.NewReader(text))
					for _, e := range []struct {
						who string
						err error
					}{{"spec.Parse", err}, {"ast.Parse", aerr}} {
						if e.err == nil || !strings.Contains(e.err.Error(), want) {
							r.Report("", fmt.Sprintf("%s, file name %q: the diagnostic %q does not name %s\n%s", e.who, name, fmt.Sprint(e.err), want, text), input{Text: text, Bad: i})
						}
					}
				}
			}
		}
	}
	r.Assume("the first offending token is computed with the LALR(1) tables of the documented grammar (ref/lrref; shown equal to the embedded tables by C04); the innocence of the prefix is witnessed by a bounded search for an accepted completion (depth 6); misses are counted, not reported")
	r.Finish()
}
