// C05: the EBNF scanner yields exactly the documented tokens, lexemes and positions.
// Part 1 explores the product of the real transition function with the documented automaton over ALL code points.
// Part 2 runs the real lexer on every text up to a length bound over one representative per symbol class.
package main

import (
	"errors"
	"fmt"
	"io"
	"os"
	"sort"
	"strings"
	"unicode/utf8"

	"github.com/gardenbed/emerge/internal/ebnf/lexer"
	"github.com/gardenbed/emerge/verif/ev"
	"github.com/gardenbed/emerge/verif/ref/ebnfref"
)

const maxRune = 0x10FFFF

type pair struct{ impl, ref int }

// part1 returns the symbol classes (one representative each) induced by both automata.
func part1(r *ev.Run, report bool) []rune {
	start := pair{0, 0}
	order := []pair{start}
	path := map[pair]string{start: ""}
	implToRef := map[int]int{0: 0}
	refToImpl := map[int]int{0: 0}
	sig := make([][]int32, maxRune+1) // per code point: concatenated next states, for class computation
	transitions := 0
	bad := 0
	fail := func(msg string, in any) {
		bad++
		if report && bad <= 40 {
			r.Report("", msg, in)
		}
	}
	for i := 0; i < len(order); i++ {
		p := order[i]
		for c := rune(0); c <= maxRune; c++ {
			ni := lexer.VerifAdvanceDFA(p.impl, c)
			nr := ebnfref.RefStep(p.ref, c)
			transitions++
			sig[c] = append(sig[c], int32(ni), int32(nr))
			if (ni == lexer.VerifErrorState) != (nr < 0) {
				fail(fmt.Sprintf("after %q (scanner state %d, documented state %d) on %q (U+%04X): scanner next state %d, documented automaton next state %d",
					path[p], p.impl, p.ref, string(c), c, ni, nr), map[string]any{"Kind": "transition", "Prefix": path[p], "Rune": int(c)})
				continue
			}
			if nr < 0 {
				continue
			}
			np := pair{ni, nr}
			if m, ok := implToRef[ni]; ok && m != nr {
				fail(fmt.Sprintf("scanner state %d corresponds to documented states %d and %d (after %q + %q)", ni, m, nr, path[p], string(c)),
					map[string]any{"Kind": "transition", "Prefix": path[p], "Rune": int(c)})
				continue
			}
			if m, ok := refToImpl[nr]; ok && m != ni {
				// two scanner states for one documented state is fine as long as they behave alike (explored separately)
				_ = m
			}
			implToRef[ni] = nr
			if _, ok := refToImpl[nr]; !ok {
				refToImpl[nr] = ni
			}
			if _, ok := path[np]; !ok {
				path[np] = path[p] + string(c)
				order = append(order, np)
			}
		}
	}
	// evaluation of every reachable scanner state
	for _, p := range order {
		lexeme := path[p]
		tok := lexer.VerifEvalDFA(p.impl, lexeme)
		kind, final := ebnfref.RefFinal[p.ref]
		if !final {
			kind = "ERR"
		}
		if string(tok.Terminal) != kind {
			fail(fmt.Sprintf("state reached by %q (scanner %d, documented %d): scanner evaluates to %q, documentation says %q", lexeme, p.impl, p.ref, tok.Terminal, kind),
				map[string]any{"Kind": "eval", "Prefix": lexeme})
		}
	}
	// symbol classes
	classes := map[string]rune{}
	for c := rune(1); c <= maxRune; c++ {
		if c >= 0xD800 && c <= 0xDFFF {
			continue
		}
		var b strings.Builder
		for _, v := range sig[c] {
			fmt.Fprintf(&b, "%d,", v)
		}
		fmt.Fprintf(&b, "|%v|%d", c == '\n', utf8.RuneLen(c))
		k := b.String()
		if old, ok := classes[k]; !ok || prefer(c, old) {
			classes[k] = c
		}
	}
	reps := make([]rune, 0, len(classes))
	for _, c := range classes {
		reps = append(reps, c)
	}
	sort.Slice(reps, func(i, j int) bool { return reps[i] < reps[j] })
	if report {
		r.Set("states", len(order))
		r.Set("transitions", transitions)
		r.Set("scanner_states_reachable", len(implToRef))
		r.Set("documented_states_reachable", len(refToImpl))
		r.Set("symbol_classes", len(reps))
		r.Set("class_representatives", fmt.Sprintf("%q", string(reps)))
		unreachable := []int{}
		for s := 0; s < ebnfref.RefStates; s++ {
			if _, ok := refToImpl[s]; !ok {
				unreachable = append(unreachable, s)
			}
		}
		r.Set("documented_states_unreached", fmt.Sprint(unreachable))
		r.Set("transition_mismatches", bad)
	}
	return reps
}

// prefer picks friendlier representatives: printable ASCII first.
func prefer(c, old rune) bool {
	score := func(x rune) int {
		switch {
		case x >= 'a' && x <= 'z', x >= 'A' && x <= 'Z':
			return 0
		case x >= 0x21 && x <= 0x7E:
			return 1
		case x < 0x80:
			return 2
		}
		return 3
	}
	return score(c) < score(old)
}

type tokOut struct {
	Kind, Lexeme         string
	Offset, Line, Column int
}

// scan runs the real lexer to the end of input or the first error.
func scan(text string) (toks []tokOut, errText string, pan any) {
	defer func() {
		if p := recover(); p != nil {
			pan = p
		}
	}()
	l, err := lexer.New("f", strings.NewReader(text))
	if err != nil {
		if errors.Is(err, io.EOF) {
			return nil, "", nil
		}
		return nil, "new: " + err.Error(), nil
	}
	for n := 0; n < 100000; n++ {
		t, err := l.NextToken()
		if err != nil {
			if errors.Is(err, io.EOF) {
				return toks, "", nil
			}
			return toks, err.Error(), nil
		}
		toks = append(toks, tokOut{string(t.Terminal), t.Lexeme, t.Pos.Offset, t.Pos.Line, t.Pos.Column})
	}
	return toks, "did not terminate", nil
}

// compare returns a description of the first difference between the real lexer and the reference on text.
func compare(text string) string {
	got, errText, pan := scan(text)
	if pan != nil {
		return "" // judged by C14
	}
	want, lerr := ebnfref.Tokenize(text)
	for i := 0; i < len(want) || i < len(got); i++ {
		if i >= len(got) {
			if errText != "" && lerr == nil {
				return fmt.Sprintf("token %d: expected %+v, scanner reported %q", i, want[i], errText)
			}
			if errText != "" {
				return fmt.Sprintf("token %d: expected %+v before the error, scanner reported %q", i, want[i], errText)
			}
			return fmt.Sprintf("token %d: expected %+v, scanner reached end of input", i, want[i])
		}
		if i >= len(want) {
			return fmt.Sprintf("token %d: scanner produced %+v, documentation yields no further token", i, got[i])
		}
		w := tokOut{want[i].Kind, want[i].Lexeme, want[i].Offset, want[i].Line, want[i].Column}
		if got[i] != w {
			return fmt.Sprintf("token %d: scanner %+v, documentation %+v", i, got[i], w)
		}
	}
	switch {
	case lerr == nil && errText != "":
		return fmt.Sprintf("scanner reports %q, documentation finds no error", errText)
	case lerr != nil && errText == "":
		return fmt.Sprintf("scanner reaches end of input, documentation finds %v", lerr)
	case lerr != nil:
		prefix := fmt.Sprintf("lexical error at f:%d:%d:", lerr.Line, lerr.Column)
		if !strings.HasPrefix(errText, prefix) {
			return fmt.Sprintf("scanner reports %q, documentation places the error at %d:%d (%v)", errText, lerr.Line, lerr.Column, lerr)
		}
	}
	return ""
}

// eofLoss is the predicate of a known/fixed finding: the text does not end in a line terminator and the only
// difference disappears when one is appended.
func classify(text, diff string) string {
	return ""
}

func main() {
	r := ev.Start("C05", "model_checking")
	if r.Replay != "" {
		var in struct {
			Kind   string
			Prefix string
			Rune   int
			Text   string
		}
		if err := r.LoadReplay(&in); err != nil {
			ev.Fatal("%v", err)
		}
		switch in.Kind {
		case "text":
			if d := compare(in.Text); d != "" {
				fmt.Println("replay:", d)
				r.Report(classify(in.Text, d), fmt.Sprintf("text %q: %s", in.Text, d), in)
			}
		default:
			part1(r, true)
		}
		r.Finish()
	}
	// Part 1 runs once, in the parent; the symbol classes it finds are handed to the workers.
	var reps []rune
	if env := os.Getenv("VERIF_C05_REPS"); env != "" {
		reps = []rune(env)
	} else {
		reps = part1(r, true)
		os.Setenv("VERIF_C05_REPS", string(reps))
	}
	// the NUL character is a lexical error of its own (not a class of the automata): it joins the representatives of
	// the stream-level enumeration (it cannot travel through the environment, so it is added on both sides)
	reps = append(reps, 0)
	if r.Fork(16) {
		r.Set("rule", "part 1: every reachable (scanner state, documented state) pair x all 1,114,112 code points; part 2: every text up to the length bound over one representative per symbol class (classes induced by both automata, refined by newline-ness and UTF-8 length) and the NUL character, each with and without a final newline, plus curated near-misses (a NUL character among them) in every gap of a token sequence, plus tokens of every kind with 4094 ... 20000 characters; non-trivial = text yields >= 1 token or an error; distinct by text")
		r.Set("evaluations", r.Get("texts"))
		r.Set("traces_validated_against_impl", r.Get("texts"))
		r.Finish()
	}
	r.Set("exhaustive", true)
	maxLen := 3
	if !r.Quick() {
		maxLen = 4
	}
	r.Set("bound_text_length", maxLen)
	check := func(text, family string) {
		r.Add("texts", 1)
		r.Add("texts_"+family, 1)
		if d := compare(text); d != "" {
			r.Report(classify(text, d), fmt.Sprintf("text %q: %s", text, d), map[string]any{"Kind": "text", "Text": text})
		}
		r.Distinct(text)
	}
	buf := make([]rune, 0, 8)
	count := 0
	var gen func(n int)
	gen = func(n int) {
		if len(buf) > 0 {
			count++
			if r.MineIdx(count) {
				if count%8192 == 0 && r.Expired() {
					r.Set("exhaustive", false)
					return
				}
				s := string(buf)
				check(s, "exhaustive")
				if buf[len(buf)-1] != '\n' {
					check(s+"\n", "exhaustive_newline")
				}
			}
		}
		if n == 0 {
			return
		}
		for _, c := range reps {
			buf = append(buf, c)
			gen(n - 1)
			buf = buf[:len(buf)-1]
		}
	}
	gen(maxLen)
	// one character deeper for texts that open a pattern, a string or a comment
	for _, p := range []string{"/", "\"", "/*", "//"} {
		buf = append(buf[:0], []rune(p)...)
		gen(maxLen + 1 - len([]rune(p)))
		if len([]rune(p)) == 2 {
			buf = append(buf[:0], []rune(p)...)
			gen(maxLen + 2 - len([]rune(p)))
		}
	}
	r.Set("bound_text_length_prefixed", maxLen+1)
	// curated near-misses in every gap of a token sequence
	base := []string{"grammar", "g", ";", "TK", "=", `"x"`, "@left", "<", "e", "=", "e", "{{", "TK", "}}", "|", ">", "start", "=", "[", "e", "]", ";"}
	near := []string{"/***/", "/* * / */", "/**/", "/* a **/", "/*/", `/a\//`, `/\//`, `/a/`, "//", "// c\n", `"\""`, `"\\"`, `"a\"b"`, `""`, `"a b"`, "@lef", "@leftx", "@none", "@right",
		"grammarx", "gramma", "grammar", "$1", "$", "$A_1", "{{{", "}}}", "\r\n", "\t", "A", "AB", "a_1", "_a", "1a", "#", "é", "😀", "/*\n*/", "/* é */", "//é", "/a", "\"a", "/*", "<>", "'",
		// a NUL character: between tokens, glued to a token, inside a string, a pattern and both kinds of comment
		"\x00", "a\x00", "\x00a", "\x00\x00", "\"a\x00b\"", "/a\x00b/", "/* \x00 */", "// \x00\n", "\x00\n"}
	for gap := 0; gap <= len(base); gap++ {
		for ni, nm := range near {
			if !r.MineIdx(gap*len(near) + ni) {
				continue
			}
			for _, sep := range []string{" ", "\n", ""} {
				text := strings.Join(base[:gap], " ") + sep + nm + sep + strings.Join(base[gap:], " ")
				check(text, "near_miss")
				check(text+"\n", "near_miss")
			}
		}
	}
	// tokens longer than the scanner's buffer half (4096) and than the whole buffer (8192): every kind that can be long
	li := 0
	for _, n := range []int{4094, 4095, 4096, 4097, 8190, 8191, 8192, 8193, 12289, 20000} {
		for _, mk := range []func(n int) string{
			func(n int) string { return strings.Repeat("a", n) },
			func(n int) string { return "T" + strings.Repeat("K", n-1) },
			func(n int) string { return `"` + strings.Repeat("s", n-2) + `"` },
			func(n int) string { return `/` + strings.Repeat("p", n-2) + `/` },
			func(n int) string { return `/*` + strings.Repeat("c", n-4) + `*/` },
			func(n int) string { return `//` + strings.Repeat("c", n-3) + "\n" },
			func(n int) string { return `"` + strings.Repeat("s", n-1) },  // unterminated
			func(n int) string { return `/*` + strings.Repeat("*", n-2) }, // unterminated
			func(n int) string { return "$" + strings.Repeat("P", n-1) },
		} {
			li++
			if !r.MineIdx(li) {
				continue
			}
			long := mk(n)
			for _, text := range []string{long, "grammar g ; x = " + long + " ;\n", long + long, "a " + long + "\n" + long + " b"} {
				check(text, "long_tokens")
			}
		}
	}
	r.Assume("the reference automaton is the listing in docs/6-design.md with kinds from the token table of docs/5-definitions.md, corrected so that a /* */ comment ends at the first */ as the property states; a single capital letter is a lexical error as in that listing")
	r.Assume("texts contain no invalid UTF-8 (the reader's own error, outside this property); a NUL character is one of the enumerated representatives and part of the near-miss family")
	r.Finish()
}
