// C06: the LALR(1) table emerge builds for a user grammar parses exactly its language, as the directives dictate;
// unresolved conflicts are reported, LALR(1) grammars are never rejected.
package main

import (
	"fmt"
	"sort"
	"strings"

	"github.com/moorara/algo/grammar"
	"github.com/moorara/algo/parser/lr"

	"github.com/gardenbed/emerge/internal/ebnf/parser/spec"
	"github.com/gardenbed/emerge/verif/cli"
	"github.com/gardenbed/emerge/verif/ev"
	"github.com/gardenbed/emerge/verif/ref/ebnfref"
	"github.com/gardenbed/emerge/verif/ref/lrref"
)

// gram is a plain grammar written by the harness: productions with string-literal terminals and directives.
type gram struct {
	prods  []lrref.Prod  // head + body (terminals are string literals)
	levels []lrref.Level // precedence levels (terminal handles only)
	lines  []string      // directive lines as text
}

func (g *gram) text() string {
	var b strings.Builder
	b.WriteString("grammar g ;\n")
	for _, l := range g.lines {
		b.WriteString(l + " ;\n")
	}
	byHead := map[string][]string{}
	var heads []string
	for _, p := range g.prods {
		if _, ok := byHead[p.Head]; !ok {
			heads = append(heads, p.Head)
		}
		var parts []string
		for _, s := range p.Body {
			if s.Term {
				parts = append(parts, `"`+s.Name+`"`)
			} else {
				parts = append(parts, s.Name)
			}
		}
		byHead[p.Head] = append(byHead[p.Head], strings.Join(parts, " "))
	}
	for _, h := range heads {
		alts := byHead[h]
		// an empty alternative can only be written last (trailing '|') or as the whole rule
		sort.SliceStable(alts, func(i, j int) bool { return alts[i] != "" && alts[j] == "" })
		fmt.Fprintf(&b, "%s = %s ;\n", h, strings.TrimRight(strings.Join(alts, " | "), " "))
	}
	return b.String()
}

func (g *gram) terminals() []string {
	set := map[string]bool{}
	for _, p := range g.prods {
		for _, s := range p.Body {
			if s.Term {
				set[s.Name] = true
			}
		}
	}
	out := []string{}
	for t := range set {
		out = append(out, t)
	}
	sort.Strings(out)
	return out
}

func prodKey(head string, body []string) string { return head + "→" + strings.Join(body, " ") }

func refKey(p lrref.Prod) string {
	var b []string
	for _, s := range p.Body {
		b = append(b, s.Name)
	}
	return prodKey(p.Head, b)
}

func implKey(p *grammar.Production) string {
	var b []string
	for _, s := range p.Body {
		b = append(b, s.Name())
	}
	return prodKey(string(p.Head), b)
}

// drive runs the shift-reduce algorithm over emerge's table.
func drive(t *lr.ParsingTable, input []string) (reds []string, ok bool) {
	stack := []lr.State{0}
	pos := 0
	for steps := 0; steps < 100000; steps++ {
		a := grammar.Endmarker
		if pos < len(input) {
			a = grammar.Terminal(input[pos])
		}
		act, err := t.ACTION(stack[len(stack)-1], a)
		if err != nil {
			return reds, false
		}
		switch act.Type {
		case lr.SHIFT:
			stack = append(stack, act.State)
			pos++
		case lr.REDUCE:
			if len(act.Production.Body) >= len(stack) {
				return append(reds, "REDUCTION LONGER THAN THE STACK: "+implKey(act.Production)), true
			}
			stack = stack[:len(stack)-len(act.Production.Body)]
			next, err := t.GOTO(stack[len(stack)-1], act.Production.Head)
			if err != nil {
				return reds, false
			}
			stack = append(stack, next)
			reds = append(reds, implKey(act.Production))
		case lr.ACCEPT:
			return reds, true
		default:
			return reds, false
		}
	}
	return reds, false
}

func build(text string) (t *lr.ParsingTable, parseErr, tableErr error, pan any) {
	defer func() { pan = recover() }()
	s, err := spec.Parse("f.g", strings.NewReader(text))
	if err != nil {
		return nil, err, nil, nil
	}
	t, err = s.LALRParsingTable()
	return t, nil, err, nil
}

type input struct {
	Text string
	N    int
}

var cliCalls int

func viaCLI(r *ev.Run, text string, terr error, in input, class string) {
	t, err := cli.Get()
	if err != nil {
		ev.Fatal("%v", err)
	}
	// the flags that do not change what is generated take turns
	flags := [][]string{{"-out=."}, {"-out=.", "-debug"}, {"-out=.", "-verbose"}, {"-debug", "-verbose", "-out=."}}[(cliCalls/4)%4]
	res := t.Run("f.g", text, "g", flags...)
	r.Add("cli_runs", 1)
	switch {
	case res.Code == -2:
		r.Report("", "the emerge binary does not exit within 120 s\n"+text, in)
	case res.Trace:
		r.Add("cli_traces_left_to_C14", 1)
	case terr != nil:
		// the heading of the library's report must be on stderr (its body may legitimately differ between two processes
		// for the grammars of the known findings dep-lalr-nonproductive-crash / C15 dep-lalr-crash-depends-on-order)
		longest := ""
		for _, l := range strings.Split(terr.Error(), "\n") {
			if l = strings.TrimLeft(strings.TrimSpace(l), "•*- "); l != "" {
				longest = l
				break
			}
		}
		switch {
		case res.Code == 0 || res.Announced:
			r.Report(class, fmt.Sprintf("Spec.LALRParsingTable reports %q but the emerge binary exits with status %d (success announced: %v)\n%s", head(terr.Error()), res.Code, res.Announced, text), in)
		case !strings.Contains(res.Stderr, longest):
			r.Report("", fmt.Sprintf("Spec.LALRParsingTable reports %q; the emerge binary exits with status %d but its stderr does not carry the report: %q\n%s", head(terr.Error()), res.Code, head(cli.StripEmoji(res.Stderr)), text), in)
		}
	case res.Code != 0 || !res.Announced || len(res.Files) != 6:
		r.Report(class, fmt.Sprintf("Spec.LALRParsingTable builds a table but the emerge binary exits with status %d (success announced: %v, files %v): %q\n%s", res.Code, res.Announced, res.Files, head(cli.StripEmoji(res.Stderr)), text), in)
	}
}

func head(s string) string {
	if len(s) > 300 {
		return s[:300] + "…"
	}
	return s
}

// language of the harness grammar up to length n (reference fixpoint over ebnfref semantics)
func language(g *gram, n int) ebnfref.Lang {
	sp := &ebnfref.Spec{Name: "g"}
	for _, p := range g.prods {
		var ops []ebnfref.Expr
		for _, s := range p.Body {
			if s.Term {
				ops = append(ops, &ebnfref.Str{Lexeme: s.Name})
			} else {
				ops = append(ops, &ebnfref.NT{Name: s.Name})
			}
		}
		var rhs ebnfref.Expr
		switch len(ops) {
		case 0:
		case 1:
			rhs = ops[0]
		default:
			rhs = &ebnfref.Cat{Ops: ops}
		}
		sp.Decls = append(sp.Decls, &ebnfref.Rule{LHS: p.Head, RHS: rhs})
	}
	return sp.Languages(n)["start"]
}

func allStrings(terms []string, n int, yield func([]string)) {
	var cur []string
	var rec func()
	rec = func() {
		yield(cur)
		if len(cur) == n {
			return
		}
		for _, t := range terms {
			cur = append(cur, t)
			rec()
			cur = cur[:len(cur)-1]
		}
	}
	rec()
}

func checkGrammar(r *ev.Run, g *gram, family string, n int, extra [][]string, expected func(in []string) ([]string, bool)) {
	text := g.text()
	in := input{Text: text, N: n}
	r.Add("grammars", 1)
	r.Add("grammars_"+family, 1)
	t, perr, terr, pan := build(text)
	if pan != nil {
		r.Add("panics_left_to_C14", 1)
		return
	}
	if perr != nil {
		if strings.HasPrefix(family, "operators") || strings.HasPrefix(family, "shapes") {
			// these families are well-formed by construction (every symbol defined, no handle written twice)
			r.Report("", fmt.Sprintf("a well-formed specification is rejected before any table is built: %v\n%s", perr, text), in)
			return
		}
		r.Add("rejected_by_spec_parse_left_to_C07", 1)
		return
	}
	if t == nil && terr == nil {
		r.Report("", fmt.Sprintf("Spec.LALRParsingTable returns neither a table nor an error\n%s", text), in)
		return
	}
	// observation at the command line: the tool must end the way the library does - a table error (conflict report)
	// means a non-zero exit status with the report on stderr, a table means the package is announced
	ref := lrref.New("start", g.prods, g.levels).Build()
	conflict := len(ref.Conflicts) > 0
	// Known-finding predicate "dep-lalr-superset-state": the dependency's LALR(1) builder resolves the target of a
	// transition by looking for a state whose item set CONTAINS the goto set; when the kernel of one state is
	// strictly contained in the kernel of another, it may pick the larger one. Only grammars with such a pair of
	// states can be affected.
	class := ""
	if nested, _ := ref.NestedKernels(); nested {
		class = "dep-lalr-superset-state"
		r.Add("grammars_with_nested_kernels", 1)
	}
	// Known-finding predicate "dep-lalr-nonproductive-order": for a grammar with a non-terminal that derives no terminal
	// string the dependency's builder answers with a table in one process and with a conflict report in another (the
	// order in which it walks its shuffled sets decides; the crash variant is dep-lalr-nonproductive-crash / C15
	// dep-lalr-crash-depends-on-order). Only such grammars are explained by it.
	if class == "" && hasNonProductive(g) {
		class = "dep-lalr-nonproductive-order"
	}
	// (for the grammars of that known finding the builder's answer - a table or a conflict report - also depends on the
	// order in which its shuffled sets are walked, so two processes may disagree: same class)
	cliCalls++
	if !r.Quick() || cliCalls%4 == 0 {
		viaCLI(r, text, terr, in, class)
	}
	// Known-finding predicate "dep-lalr-nonproductive-crash": the dependency's table builder dereferences a nil
	// lookahead set for some grammars in which a non-terminal derives no terminal string; emerge reports the recovered
	// crash as the table-construction error. Only such grammars, and only that error, are explained by it.
	if terr != nil && !conflict && hasNonProductive(g) && strings.Contains(terr.Error(), "nil pointer dereference") {
		r.Report("dep-lalr-nonproductive-crash", fmt.Sprintf("the grammar has no LALR(1) conflict but the table builder crashes: %v\n%s", terr, text), in)
		return
	}
	switch {
	case terr != nil && !conflict:
		r.Report(class, fmt.Sprintf("the grammar is LALR(1) under its directives (independent construction: %d states, %d cells resolved by precedence, no conflict left) but emerge rejects it: %v\n%s", ref.NStates, ref.Resolved, terr, text), in)
		return
	case terr == nil && conflict:
		c := ref.Conflicts[0]
		r.Report(class, fmt.Sprintf("the grammar has an LALR(1) conflict the directives do not resolve (e.g. on %q among %d actions) but emerge builds a table without reporting it\n%s", c.Terminal, len(c.Actions), text), in)
		return
	}
	if terr != nil {
		r.Add("conflicts_reported", 1)
		return
	}
	r.Add("tables_built", 1)
	r.Distinct(text)
	lang := language(g, n)
	terms := g.terminals()
	strs := 0
	bad := false
	test := func(s []string) {
		if bad {
			return
		}
		strs++
		reds, ok := drive(t, s)
		key := ""
		for _, x := range s {
			key += ebnfref.Sym(x)
		}
		_, derives := lang[key]
		want := derives
		if len(s) > n || ref.Resolved > 0 {
			// beyond the language bound the independent table decides; so it does when a directive resolved a cell,
			// because resolving a conflict may remove sentences (e.g. "if" above "else" makes the else branch unreachable)
			_, want, _ = ref.Parse(s)
		}
		if ok && len(s) <= n && !derives {
			bad = true
			r.Report(class, fmt.Sprintf("sentence [%s]: emerge's table accepts it but the grammar does not derive it\n%s", strings.Join(s, " "), text), in)
			return
		}
		if ok != want {
			bad = true
			r.Report(class, fmt.Sprintf("sentence [%s]: emerge's table accepts=%v, expected %v (grammar derives it: %v; cells resolved by directives: %d)\n%s", strings.Join(s, " "), ok, want, derives, ref.Resolved, text), in)
			return
		}
		if expected != nil && !ok {
			if _, ok3 := expected(s); ok3 {
				bad = true
				r.Report(class, fmt.Sprintf("sentence [%s]: precedence climbing over the declared levels parses it but emerge's table rejects it\n%s", strings.Join(s, " "), text), in)
				return
			}
		}
		if !ok {
			return
		}
		rr, rok, _ := ref.Parse(s)
		if !rok {
			bad = true
			r.Report("", fmt.Sprintf("sentence [%s] is in the language but the independent LALR(1) table rejects it (harness inconsistency)\n%s", strings.Join(s, " "), text), in)
			return
		}
		var want2 []string
		for _, pi := range rr {
			want2 = append(want2, refKey(ref.G.Prods[pi]))
		}
		if strings.Join(reds, ";") != strings.Join(want2, ";") {
			bad = true
			r.Report(class, fmt.Sprintf("sentence [%s]: emerge's table reduces by\n  %v\nthe directives dictate\n  %v\n%s", strings.Join(s, " "), reds, want2, text), in)
			return
		}
		if expected != nil {
			if want3, ok3 := expected(s); ok3 && strings.Join(reds, ";") != strings.Join(want3, ";") {
				bad = true
				r.Report(class, fmt.Sprintf("sentence [%s]: emerge's table reduces by\n  %v\nprecedence climbing over the declared levels gives\n  %v\n%s", strings.Join(s, " "), reds, want3, text), in)
			}
		}
	}
	allStrings(terms, n, test)
	for _, s := range extra {
		test(s)
	}
	r.Add("sentences_driven", strs)
}

// hasNonProductive reports whether some non-terminal of g derives no terminal string.
func hasNonProductive(g *gram) bool {
	productive := map[string]bool{}
	for changed := true; changed; {
		changed = false
		for _, p := range g.prods {
			if productive[p.Head] {
				continue
			}
			ok := true
			for _, s := range p.Body {
				if !s.Term && !productive[s.Name] {
					ok = false
					break
				}
			}
			if ok {
				productive[p.Head] = true
				changed = true
			}
		}
	}
	for _, p := range g.prods {
		if !productive[p.Head] {
			return true
		}
	}
	return false
}

func T(s string) lrref.Sym { return lrref.Sym{Name: s, Term: true} }
func N(s string) lrref.Sym { return lrref.Sym{Name: s} }

func P(head string, body ...lrref.Sym) lrref.Prod { return lrref.Prod{Head: head, Body: body} }

// textbook families
func textbook() map[string]*gram {
	e, t, f := N("e"), N("t"), N("f")
	return map[string]*gram{
		"slr_expression":  {prods: []lrref.Prod{P("start", e), P("e", e, T("+"), t), P("e", t), P("t", t, T("*"), f), P("t", f), P("f", T("("), e, T(")")), P("f", T("i"))}},
		"lalr_not_slr":    {prods: []lrref.Prod{P("start", N("l"), T("="), N("r")), P("start", N("r")), P("l", T("*"), N("r")), P("l", T("i")), P("r", N("l"))}},
		"lr1_not_lalr":    {prods: []lrref.Prod{P("start", T("a"), N("x"), T("d")), P("start", T("b"), N("y"), T("d")), P("start", T("a"), N("y"), T("e")), P("start", T("b"), N("x"), T("e")), P("x", T("c")), P("y", T("c"))}},
		"dangling_else":   {prods: []lrref.Prod{P("start", N("s")), P("s", T("i"), N("s")), P("s", T("i"), N("s"), T("e"), N("s")), P("s", T("o"))}},
		"ambiguous_sum":   {prods: []lrref.Prod{P("start", e), P("e", e, T("+"), e), P("e", T("i"))}},
		"palindromes":     {prods: []lrref.Prod{P("start", T("a"), N("start"), T("a")), P("start", T("b"), N("start"), T("b")), P("start")}},
		"epsilon_heavy":   {prods: []lrref.Prod{P("start", N("x"), N("y"), N("x")), P("x", T("a")), P("x"), P("y", T("b")), P("y")}},
		"epsilon_lists":   {prods: []lrref.Prod{P("start", N("l")), P("l", N("l"), T("a")), P("l"), P("l", T("b"))}},
		"right_recursive": {prods: []lrref.Prod{P("start", T("a"), N("start")), P("start", T("b"))}},
		"juxtaposition_rule_handle": {prods: []lrref.Prod{P("start", e), P("e", e, e), P("e", T("a"))},
			levels: []lrref.Level{{Assoc: "left", Prods: map[string]bool{P("e", e, e).String(): true}}, {Assoc: "left", Terms: map[string]bool{"a": true}}}, lines: []string{`@left < e = e e >`, `@left "a"`}},
		"juxtaposition_rule_handle_right": {prods: []lrref.Prod{P("start", e), P("e", e, e), P("e", T("a"))},
			levels: []lrref.Level{{Assoc: "right", Prods: map[string]bool{P("e", e, e).String(): true}}, {Assoc: "left", Terms: map[string]bool{"a": true}}}, lines: []string{`@right < e = e e >`, `@left "a"`}},
		"dangling_else_empty_rule_handle": {prods: []lrref.Prod{P("start", N("s")), P("s", T("i"), N("s"), N("p")), P("s", T("o")), P("p", T("e"), N("s")), P("p")},
			levels: []lrref.Level{{Assoc: "right", Terms: map[string]bool{"e": true}, Prods: map[string]bool{P("p").String(): true}}}, lines: []string{`@right "e" < p = >`}},
		"dangling_else_empty_rule_handle_trailing_bar": {prods: []lrref.Prod{P("start", N("s")), P("s", T("i"), N("s"), N("p")), P("s", T("o")), P("p", T("e"), N("s")), P("p")},
			levels: []lrref.Level{{Assoc: "right", Terms: map[string]bool{"e": true}, Prods: map[string]bool{P("p").String(): true, P("p", T("e"), N("s")).String(): true}}}, lines: []string{`@right "e" < p = "e" s | >`}},
		"dangling_else_resolved": {prods: []lrref.Prod{P("start", N("s")), P("s", T("i"), N("s")), P("s", T("i"), N("s"), T("e"), N("s")), P("s", T("o"))},
			levels: []lrref.Level{{Assoc: "right", Terms: map[string]bool{"e": true}}, {Assoc: "right", Terms: map[string]bool{"i": true}}}, lines: []string{`@right "e"`, `@right "i"`}},
	}
}

// generated enumerates every grammar with up to maxProds productions over start, x and terminals a, b,
// bodies of length <= 2 (plus length 3 bodies in thorough), first terminal used is "a" (a/b symmetry).
func generated(maxProds int, long bool, yield func(g *gram)) {
	syms := []lrref.Sym{T("a"), T("b"), N("start"), N("x")}
	var bodies [][]lrref.Sym
	bodies = append(bodies, nil)
	for _, s := range syms {
		bodies = append(bodies, []lrref.Sym{s})
	}
	for _, s := range syms {
		for _, u := range syms {
			bodies = append(bodies, []lrref.Sym{s, u})
		}
	}
	if long {
		for _, s := range syms {
			for _, u := range syms {
				for _, v := range syms {
					if s.Term != u.Term || u.Term != v.Term {
						bodies = append(bodies, []lrref.Sym{s, u, v})
					}
				}
			}
		}
	}
	var all []lrref.Prod
	for _, h := range []string{"start", "x"} {
		for _, b := range bodies {
			all = append(all, lrref.Prod{Head: h, Body: b})
		}
	}
	var cur []lrref.Prod
	var rec func(from int)
	rec = func(from int) {
		if len(cur) > 0 {
			hasStart, hasX, usesX := false, false, false
			firstTerm := ""
			for _, p := range cur {
				hasStart = hasStart || p.Head == "start"
				hasX = hasX || p.Head == "x"
				for _, s := range p.Body {
					usesX = usesX || (!s.Term && s.Name == "x")
					if s.Term && firstTerm == "" {
						firstTerm = s.Name
					}
				}
			}
			if hasStart && hasX == usesX && firstTerm != "b" {
				yield(&gram{prods: append([]lrref.Prod{}, cur...)})
			}
		}
		if len(cur) == maxProds {
			return
		}
		for i := from; i < len(all); i++ {
			cur = append(cur, all[i])
			rec(i + 1)
			cur = cur[:len(cur)-1]
		}
	}
	rec(0)
}

// ---- operator grammars -------------------------------------------------------------------------------------

type opLevel struct {
	assoc string
	ops   []string
	rules []string // operators whose production is listed as a rule handle: < e = e "+" e >, < e = "-" e >
}

// pratt parses an operator expression by precedence climbing and returns the reduction sequence
// (ok=false if the input is not an expression or an operator has no level).
func pratt(levels []opLevel, binary map[string]bool, prefix string, in []string) ([]string, bool) {
	bp := map[string]int{}
	right := map[string]bool{}
	for i, l := range levels {
		for _, o := range l.ops {
			bp[o] = 2 * (len(levels) - i)
			right[o] = l.assoc == "right"
		}
	}
	pos := 0
	var reds []string
	okAll := true
	var expr func(rbp int) bool
	expr = func(rbp int) bool {
		if pos >= len(in) {
			return false
		}
		switch tok := in[pos]; {
		case tok == "i":
			pos++
			reds = append(reds, prodKey("e", []string{"i"}))
		case tok == "(":
			pos++
			if !expr(0) || pos >= len(in) || in[pos] != ")" {
				return false
			}
			pos++
			reds = append(reds, prodKey("e", []string{"(", "e", ")"}))
		case tok == prefix && prefix != "":
			if _, has := bp[tok]; !has {
				okAll = false
				return false
			}
			pos++
			rb := bp[tok]
			if right[tok] {
				rb--
			}
			if !expr(rb) {
				return false
			}
			reds = append(reds, prodKey("e", []string{tok, "e"}))
		default:
			return false
		}
		for pos < len(in) && binary[in[pos]] {
			op := in[pos]
			if _, has := bp[op]; !has {
				okAll = false
				return false
			}
			if bp[op] <= rbp {
				break
			}
			pos++
			rb := bp[op]
			if right[op] {
				rb--
			}
			if !expr(rb) {
				return false
			}
			reds = append(reds, prodKey("e", []string{"e", op, "e"}))
		}
		return true
	}
	if !expr(0) || pos != len(in) || !okAll {
		return nil, false
	}
	reds = append(reds, prodKey("start", []string{"e"}))
	return reds, true
}

// expressions enumerates every operator expression with up to k operators (as token strings).
func expressions(binary []string, prefix string, k int) [][]string {
	memo := map[int][][]string{}
	var gen func(n int) [][]string
	gen = func(n int) [][]string {
		if v, ok := memo[n]; ok {
			return v
		}
		var out [][]string
		if n == 0 {
			out = append(out, []string{"i"})
		} else {
			if prefix != "" {
				for _, e := range gen(n - 1) {
					out = append(out, append([]string{prefix}, e...))
				}
			}
			for l := 0; l <= n-1; l++ {
				for _, a := range gen(l) {
					for _, b := range gen(n - 1 - l) {
						for _, op := range binary {
							out = append(out, append(append(append([]string{}, a...), op), b...))
						}
					}
				}
			}
		}
		memo[n] = out
		return out
	}
	seen := map[string]bool{}
	var all [][]string
	for n := 0; n <= k; n++ {
		for _, e := range gen(n) {
			key := strings.Join(e, " ")
			if !seen[key] {
				seen[key] = true
				all = append(all, e)
			}
		}
	}
	return all
}

// partitions enumerates every ordered partition of ops into levels.
func partitions(ops []string, yield func([][]string)) {
	var rec func(rest []string, cur [][]string)
	rec = func(rest []string, cur [][]string) {
		if len(rest) == 0 {
			yield(cur)
			return
		}
		// choose a non-empty subset of rest as the next level
		n := len(rest)
		for mask := 1; mask < 1<<n; mask++ {
			var lvl, left []string
			for i, o := range rest {
				if mask&(1<<i) != 0 {
					lvl = append(lvl, o)
				} else {
					left = append(left, o)
				}
			}
			rec(left, append(append([][]string{}, cur...), lvl))
		}
	}
	rec(ops, nil)
}

func operatorGrammar(binary []string, prefix string, levels []opLevel) *gram {
	e := N("e")
	g := &gram{}
	g.prods = append(g.prods, P("start", e))
	for _, op := range binary {
		g.prods = append(g.prods, P("e", e, T(op), e))
	}
	if prefix != "" {
		g.prods = append(g.prods, P("e", T(prefix), e))
	}
	g.prods = append(g.prods, P("e", T("("), e, T(")")), P("e", T("i")))
	for _, l := range levels {
		lv := lrref.Level{Assoc: l.assoc, Terms: map[string]bool{}, Prods: map[string]bool{}}
		parts := []string{"@" + l.assoc}
		for _, o := range l.ops {
			lv.Terms[o] = true
			parts = append(parts, `"`+o+`"`)
		}
		for _, o := range l.rules {
			if o == prefix {
				lv.Prods[P("e", T(o), e).String()] = true
				parts = append(parts, `< e = "`+o+`" e >`)
			} else {
				lv.Prods[P("e", e, T(o), e).String()] = true
				parts = append(parts, `< e = e "`+o+`" e >`)
			}
		}
		g.levels = append(g.levels, lv)
		g.lines = append(g.lines, strings.Join(parts, " "))
	}
	return g
}

func main() {
	r := ev.Start("C06", "exploration")
	quick := r.Quick()
	n := 5
	if !quick {
		n = 6
	}
	if r.Replay != "" {
		var in input
		if err := r.LoadReplay(&in); err != nil {
			ev.Fatal("%v", err)
		}
		sp, err := ebnfref.ParseSpec(in.Text)
		if err != nil {
			ev.Fatal("replay: %v", err)
		}
		g := fromSpec(sp)
		checkGrammar(r, g, "replay", in.N, nil, nil)
		r.Finish()
	}
	if r.Fork(16) {
		r.Set("rule", "textbook families; every grammar with up to the production bound over start, x, \"a\", \"b\" with bodies up to the length bound (those with a conflict also under six directive lists over their terminals, so that shift/reduce and reduce/reduce conflicts meet declared levels); operator grammars over 2-3 binary and one prefix operator under every ordered partition into levels x every @left/@right assignment x every @left/@right/@none assignment (and missing-level variants, a directive naming only unused terminals inserted at every position, and for every operator the rule handle of its production - which contains a terminal and is therefore inert - as a directive of its own at every position and instead of the operator's terminal handle); prefix / postfix / dangling-else shapes, whose only conflicts are between different handles, under every partition x assignment; every grammar (quick: every fourth) is also given to the real binary as a file, which must end the way the library does (conflict report on stderr and a non-zero status, or the announced package of six files); each accepted grammar is driven on every terminal string up to the length bound (and every operator expression up to the operator bound); non-trivial = grammar for which a table is built; distinct by text")
		r.Set("evaluations", r.Get("grammars"))
		r.Finish()
	}
	r.Set("exhaustive", true)
	r.Set("bound_sentence_length", n)
	count := 0
	mine := func() bool {
		count++
		if !r.MineIdx(count) {
			return false
		}
		if r.Expired() {
			r.Set("exhaustive", false)
			return false
		}
		return true
	}
	// (i)
	names := []string{}
	tb := textbook()
	for k := range tb {
		names = append(names, k)
	}
	sort.Strings(names)
	for _, k := range names {
		if mine() {
			checkGrammar(r, tb[k], "textbook", n+2, nil, nil)
			r.Sample(map[string]any{"family": "textbook/" + k, "text": tb[k].text()})
		}
	}
	// (ii)
	maxProds := 3
	if !quick {
		maxProds = 4
	}
	r.Set("bound_productions", maxProds)
	// every generated grammar that has a conflict is given again with directives over its two terminals - one level,
	// two levels in both orders, left and right: shift/reduce AND reduce/reduce conflicts whose handles all have a level
	// (a reduce/reduce conflict inside one level stays a conflict; across two levels the earlier level wins)
	levelVariants := [][]opLevel{
		{{assoc: "left", ops: []string{"a", "b"}}},
		{{assoc: "right", ops: []string{"a", "b"}}},
		{{assoc: "left", ops: []string{"a"}}, {assoc: "left", ops: []string{"b"}}},
		{{assoc: "right", ops: []string{"b"}}, {assoc: "left", ops: []string{"a"}}},
		{{assoc: "none", ops: []string{"a"}}, {assoc: "right", ops: []string{"b"}}},
		{{assoc: "left", ops: []string{"a"}}},
	}
	generated(maxProds, false, func(g *gram) {
		if mine() {
			checkGrammar(r, g, "generated", n, nil, nil)
			if len(lrref.New("start", g.prods, nil).Build().Conflicts) == 0 {
				return
			}
			for _, lv := range levelVariants {
				g2 := &gram{prods: g.prods}
				for _, l := range lv {
					rl := lrref.Level{Assoc: l.assoc, Terms: map[string]bool{}}
					line := "@" + l.assoc
					for _, o := range l.ops {
						rl.Terms[o] = true
						line += ` "` + o + `"`
					}
					g2.levels = append(g2.levels, rl)
					g2.lines = append(g2.lines, line)
				}
				checkGrammar(r, g2, "generated_with_levels", n, nil, nil)
			}
		}
	})
	if !quick {
		generated(2, true, func(g *gram) {
			if mine() {
				checkGrammar(r, g, "generated_long_bodies", n, nil, nil)
			}
		})
	}
	// (iii)
	opsets := []struct {
		binary []string
		prefix string
	}{{[]string{"+", "*"}, ""}, {[]string{"+", "*"}, "-"}, {[]string{"+", "*", "^"}, ""}}
	if !quick {
		opsets = append(opsets, struct {
			binary []string
			prefix string
		}{[]string{"+", "*", "^"}, "-"})
	}
	for _, os := range opsets {
		all := append([]string{}, os.binary...)
		if os.prefix != "" {
			all = append(all, os.prefix)
		}
		bin := map[string]bool{}
		for _, b := range os.binary {
			bin[b] = true
		}
		k := 3
		if len(all) >= 4 || quick {
			k = 2
		}
		exprs := expressions(os.binary, os.prefix, k)
		if !quick {
			// parenthesised variants of the small ones
			for _, e := range expressions(os.binary, os.prefix, 1) {
				exprs = append(exprs, append(append([]string{"("}, e...), ")", os.binary[0], "i"))
			}
		}
		partitions(all, func(parts [][]string) {
			nl := len(parts)
			// every assignment of @left / @right / @none to the levels
			assocs := []string{"left", "right", "none"}
			total := 1
			for i := 0; i < nl; i++ {
				total *= 3
			}
			for code := 0; code < total; code++ {
				var levels []opLevel
				anyNone := false
				for i, c := 0, code; i < nl; i, c = i+1, c/3 {
					a := assocs[c%3]
					anyNone = anyNone || a == "none"
					levels = append(levels, opLevel{assoc: a, ops: parts[i]})
				}
				if !mine() {
					continue
				}
				g := operatorGrammar(os.binary, os.prefix, levels)
				if anyNone {
					checkGrammar(r, g, "operators_none", 4, exprs, nil)
					continue
				}
				lv := levels
				checkGrammar(r, g, "operators", 4, exprs, func(in []string) ([]string, bool) {
					return pratt(lv, bin, os.prefix, in)
				})
				// the same levels with a directive that names only terminals no rule uses, at every position
				for at := 0; at <= nl; at++ {
					var with []opLevel
					with = append(with, levels[:at]...)
					with = append(with, opLevel{assoc: "right", ops: []string{"unused", "%"}})
					with = append(with, levels[at:]...)
					checkGrammar(r, operatorGrammar(os.binary, os.prefix, with), "operators_stale_level", 4, exprs, func(in []string) ([]string, bool) {
						return pratt(lv, bin, os.prefix, in)
					})
				}
				// a rule handle naming a production that contains a terminal is inert (the documentation: such a
				// production takes the level of its leftmost terminal): written as a directive of its own at every
				// position it changes nothing, written INSTEAD of the operator's terminal it leaves the operator
				// without a level, so its conflicts stay unresolved
				for oi, op := range all {
					for at := 0; at <= nl; at++ {
						var with []opLevel
						with = append(with, levels[:at]...)
						with = append(with, opLevel{assoc: assocs[(oi+at)%2], rules: []string{op}})
						with = append(with, levels[at:]...)
						checkGrammar(r, operatorGrammar(os.binary, os.prefix, with), "operators_inert_rule_handle", 4, exprs, func(in []string) ([]string, bool) {
							return pratt(lv, bin, os.prefix, in)
						})
					}
					var instead []opLevel
					for _, l := range levels {
						nl2 := opLevel{assoc: l.assoc}
						for _, o := range l.ops {
							if o == op {
								nl2.rules = append(nl2.rules, o)
							} else {
								nl2.ops = append(nl2.ops, o)
							}
						}
						instead = append(instead, nl2)
					}
					checkGrammar(r, operatorGrammar(os.binary, os.prefix, instead), "operators_rule_handle_instead_of_terminal", 4, exprs, nil)
				}
			}
			if mine() && len(parts) > 1 {
				var levels []opLevel
				for _, p := range parts[1:] {
					levels = append(levels, opLevel{assoc: "left", ops: p})
				}
				checkGrammar(r, operatorGrammar(os.binary, os.prefix, levels), "operators_missing_level", 4, exprs, nil)
			}
		})
	}
	// (iii-b) many levels: eleven binary operators and a prefix operator on twelve levels (level numbers with two
	// digits), in the written order and reversed, one operator per level and two per level, associativities in rotation
	// and all left: every expression with up to two operators must be parsed as precedence climbing says
	{
		binary := []string{"+", "-", "*", "/", "%", "^", "&", "|", "<", ">", "="}
		prefix := "!"
		bin := map[string]bool{}
		for _, b := range binary {
			bin[b] = true
		}
		all := append(append([]string{}, binary...), prefix)
		exprs := expressions(binary, prefix, 2)
		rot := []string{"left", "right"}
		for variant := 0; variant < 6; variant++ {
			ops := append([]string{}, all...)
			if variant%2 == 1 {
				for i, j := 0, len(ops)-1; i < j; i, j = i+1, j-1 {
					ops[i], ops[j] = ops[j], ops[i]
				}
			}
			per := 1
			if variant >= 4 {
				per = 2
			}
			var levels []opLevel
			for i := 0; i < len(ops); i += per {
				a := "left"
				if variant >= 2 {
					a = rot[(i/per)%2]
				}
				levels = append(levels, opLevel{assoc: a, ops: ops[i : i+per]})
			}
			if quick && variant != 0 && variant != 3 && variant != 5 {
				continue
			}
			if !mine() {
				continue
			}
			lv := levels
			checkGrammar(r, operatorGrammar(binary, prefix, levels), "operators_many_levels", 3, exprs, func(in []string) ([]string, bool) {
				return pratt(lv, bin, prefix, in)
			})
		}
	}
	// (iv) grammars whose operators do not conflict with themselves (prefix, postfix, dangling else), so that the only
	// conflicts are BETWEEN different handles: every ordered partition of the handles into levels x every assignment of
	// @left / @right / @none; two handles sharing one @none level must leave their conflict unresolved.
	e := N("e")
	shapes := []struct {
		name  string
		prods []lrref.Prod
		ops   []string
	}{
		{"prefix_postfix", []lrref.Prod{P("start", e), P("e", T("-"), e), P("e", e, T("!")), P("e", T("i"))}, []string{"-", "!"}},
		{"prefix_postfix_binary", []lrref.Prod{P("start", e), P("e", T("-"), e), P("e", e, T("!")), P("e", e, T("+"), e), P("e", T("i"))}, []string{"-", "!", "+"}},
		{"two_prefix_postfix", []lrref.Prod{P("start", e), P("e", T("-"), e), P("e", T("~"), e), P("e", e, T("!")), P("e", T("i"))}, []string{"-", "~", "!"}},
		{"dangling_else", []lrref.Prod{P("start", e), P("e", T("if"), e), P("e", T("if"), e, T("else"), e), P("e", T("i"))}, []string{"if", "else"}},
		{"dangling_else_postfix", []lrref.Prod{P("start", e), P("e", T("if"), e), P("e", T("if"), e, T("else"), e), P("e", e, T("!")), P("e", T("i"))}, []string{"if", "else", "!"}},
		// productions with two terminals that may sit on different levels (the production takes the level of one
		// particular terminal): a ternary operator next to a binary one, a bracketed prefix next to a binary one
		{"ternary_binary", []lrref.Prod{P("start", e), P("e", e, T("?"), e, T(":"), e), P("e", e, T("+"), e), P("e", T("i"))}, []string{"?", ":", "+"}},
		{"bracket_prefix_binary", []lrref.Prod{P("start", e), P("e", T("["), e, T("]"), e), P("e", e, T("+"), e), P("e", T("i"))}, []string{"[", "]", "+"}},
	}
	for _, sh := range shapes {
		subsets := [][]string{sh.ops}
		// also leave one handle without a level
		for i := range sh.ops {
			var sub []string
			for j, o := range sh.ops {
				if j != i {
					sub = append(sub, o)
				}
			}
			subsets = append(subsets, sub)
		}
		for _, ops := range subsets {
			partitions(ops, func(parts [][]string) {
				nl := len(parts)
				assocs := []string{"left", "right", "none"}
				total := 1
				for i := 0; i < nl; i++ {
					total *= 3
				}
				for code := 0; code < total; code++ {
					if !mine() {
						continue
					}
					g := &gram{prods: sh.prods}
					for i, c := 0, code; i < nl; i, c = i+1, c/3 {
						lv := lrref.Level{Assoc: assocs[c%3], Terms: map[string]bool{}}
						line := "@" + assocs[c%3]
						for _, o := range parts[i] {
							lv.Terms[o] = true
							line += ` "` + o + `"`
						}
						g.levels = append(g.levels, lv)
						g.lines = append(g.lines, line)
					}
					checkGrammar(r, g, "shapes_"+sh.name, n, nil, nil)
				}
			})
		}
	}
	r.OnFinish(func() {
		if t, err := cli.Get(); err == nil {
			t.Close()
		}
	})
	r.Assume("conflict detection and table contents are decided by an independent canonical-LR(1)-merged-by-core construction with the documented resolution rule (ref/lrref); operator grammars are additionally compared with a precedence-climbing parser")
	r.Assume("the table builder itself is dependency code (moorara/algo); emerge's contribution is the plumbing from directives to levels and the error surfacing")
	r.Finish()
}

// fromSpec rebuilds a harness grammar from a replayed specification (plain rules and terminal-handle directives).
func fromSpec(sp *ebnfref.Spec) *gram {
	g := &gram{}
	for _, d := range sp.Decls {
		switch v := d.(type) {
		case *ebnfref.Rule:
			alts := []ebnfref.Expr{v.RHS}
			trailing := false
			if a, ok := v.RHS.(*ebnfref.Alt); ok {
				alts, trailing = a.Ops, a.TrailingEmpty
			}
			for _, a := range alts {
				p := lrref.Prod{Head: v.LHS}
				ops := []ebnfref.Expr{a}
				if c, ok := a.(*ebnfref.Cat); ok {
					ops = c.Ops
				}
				for _, o := range ops {
					switch x := o.(type) {
					case *ebnfref.Str:
						p.Body = append(p.Body, T(x.Lexeme))
					case *ebnfref.NT:
						p.Body = append(p.Body, N(x.Name))
					}
				}
				g.prods = append(g.prods, p)
			}
			if trailing {
				g.prods = append(g.prods, lrref.Prod{Head: v.LHS})
			}
		case *ebnfref.Directive:
			lv := lrref.Level{Assoc: strings.TrimPrefix(v.Assoc, "@"), Terms: map[string]bool{}}
			line := v.Assoc
			for _, h := range v.Handles {
				if h.Term != nil {
					lv.Terms[ebnfref.TermName(h.Term)] = true
					line += ` "` + ebnfref.TermName(h.Term) + `"`
				} else if h.Rule != nil {
					if lv.Prods == nil {
						lv.Prods = map[string]bool{}
					}
					sub := fromSpec(&ebnfref.Spec{Decls: []ebnfref.Decl{h.Rule}})
					var alts []string
					for _, p := range sub.prods {
						lv.Prods[p.String()] = true
						var parts []string
						for _, sy := range p.Body {
							if sy.Term {
								parts = append(parts, `"`+sy.Name+`"`)
							} else {
								parts = append(parts, sy.Name)
							}
						}
						alts = append(alts, strings.Join(parts, " "))
					}
					line += " < " + h.Rule.LHS + " = " + strings.TrimRight(strings.Join(alts, " | "), " ") + " >"
				}
			}
			g.levels = append(g.levels, lv)
			g.lines = append(g.lines, line)
		}
	}
	return g
}
