package ev

import (
	"encoding/json"
	"fmt"
	"hash/fnv"
	"os"
	"os/exec"
	"path/filepath"
	"strconv"
	"strings"
	"sync"
	"time"
)

// partial is what a worker process hands back to its parent.
type partial struct {
	Adds     map[string]int `json:"adds"`
	Sets     map[string]any `json:"sets"`
	Samples  []any          `json:"samples"`
	Assume   []string       `json:"assume"`
	Reports  []report       `json:"reports"`
	Distinct int            `json:"distinct"`
}

type report struct {
	Class  string `json:"class"`
	Msg    string `json:"msg"`
	Replay any    `json:"replay"`
	N      int    `json:"n"`
}

// Shard / NShards identify this process's share of the work (0/1 when not forked).
func (r *Run) ShardInfo() (int, int) {
	if r.nshards == 0 {
		return 0, 1
	}
	return r.shard, r.nshards
}

// Mine reports whether the case with this canonical key belongs to this process (hash partition, so
// equal cases always land in the same shard and per-shard distinct counts add up exactly).
func (r *Run) Mine(key string) bool {
	if r.nshards <= 1 {
		return true
	}
	h := fnv.New64a()
	h.Write([]byte(key))
	return int(h.Sum64()%uint64(r.nshards)) == r.shard
}

// MineIdx partitions by index (for enumerations known to be duplicate-free).
func (r *Run) MineIdx(i int) bool {
	if r.nshards <= 1 {
		return true
	}
	return i%r.nshards == r.shard
}

// Distinct records a non-trivial case by canonical key; the number of distinct keys becomes distinct_nontrivial.
func (r *Run) Distinct(key string) {
	h := fnv.New64a()
	h.Write([]byte(key))
	r.mu.Lock()
	if r.distinct == nil {
		r.distinct = map[uint64]struct{}{}
	}
	r.distinct[h.Sum64()] = struct{}{}
	r.mu.Unlock()
}

// Fork runs n copies of this program as workers (unless this process already is a worker or a replay) and merges
// their results. It returns true in the parent after all workers finished; the parent should then call Finish.
func (r *Run) Fork(n int) bool {
	if r.Replay != "" {
		return false
	}
	if w := os.Getenv("VERIF_WORKER"); w != "" {
		parts := strings.Split(w, "/")
		r.shard, _ = strconv.Atoi(parts[0])
		r.nshards, _ = strconv.Atoi(parts[1])
		r.workerOut = os.Getenv("VERIF_WORKER_OUT")
		return false
	}
	if n <= 1 {
		return false
	}
	dir, err := os.MkdirTemp("", "verif-"+r.ID+"-")
	if err != nil {
		Fatal("mktemp: %v", err)
	}
	defer os.RemoveAll(dir)
	var wg sync.WaitGroup
	errs := make([]error, n)
	outs := make([]string, n)
	limit := time.Until(r.Deadline) + 5*time.Minute
	for i := 0; i < n; i++ {
		wg.Add(1)
		go func(i int) {
			defer wg.Done()
			outs[i] = filepath.Join(dir, fmt.Sprintf("w%d.json", i))
			// every worker runs under an address-space limit: a runaway allocation in the code under test must
			// kill one worker (reported as an internal error), not the machine
			sh := `ulimit -v 16000000 2>/dev/null; exec "$0" "$@"`
			cmd := exec.Command("/bin/sh", append([]string{"-c", sh, os.Args[0]}, os.Args[1:]...)...)
			cmd.Env = append(os.Environ(), fmt.Sprintf("VERIF_WORKER=%d/%d", i, n), "VERIF_WORKER_OUT="+outs[i], "GOMAXPROCS=2")
			cmd.Stderr = os.Stderr
			cmd.Stdout = os.Stderr
			if err := cmd.Start(); err != nil {
				errs[i] = err
				return
			}
			done := make(chan error, 1)
			go func() { done <- cmd.Wait() }()
			select {
			case err := <-done:
				errs[i] = err
			case <-time.After(limit):
				_ = cmd.Process.Kill()
				errs[i] = fmt.Errorf("worker %d exceeded %s", i, limit)
			}
		}(i)
	}
	wg.Wait()
	failed := ""
	for i, err := range errs {
		if err != nil {
			failed += fmt.Sprintf(" worker %d failed: %v;", i, err)
		}
	}
	for i := 0; i < n; i++ {
		if errs[i] != nil {
			if ee, ok := errs[i].(*exec.ExitError); !ok || ee.ExitCode() != 3 {
				continue
			}
		}
		b, err := os.ReadFile(outs[i])
		if err != nil {
			failed += fmt.Sprintf(" worker %d left no result: %v;", i, err)
			continue
		}
		var p partial
		if err := json.Unmarshal(b, &p); err != nil {
			Fatal("worker %d result: %v", i, err)
		}
		r.merge(&p)
	}
	r.Set("worker_processes", n)
	if failed != "" {
		// an internal error unless the other workers found violations (those are printed and decide the exit status)
		r.Set("exhaustive", false)
		r.internalError = failed
	}
	return true
}

func (r *Run) merge(p *partial) {
	for k, v := range p.Adds {
		r.Add(k, v)
	}
	r.mu.Lock()
	for k, v := range p.Sets {
		if b, ok := v.(bool); ok {
			if old, ok := r.cov[k].(bool); ok {
				r.cov[k] = old && b
			} else {
				r.cov[k] = b
			}
		} else if _, ok := r.cov[k]; !ok {
			r.cov[k] = v
		}
	}
	for _, s := range p.Samples {
		if len(r.samples) < 24 {
			r.samples = append(r.samples, s)
		}
	}
	for _, a := range p.Assume {
		dup := false
		for _, b := range r.assumptions {
			dup = dup || a == b
		}
		if !dup {
			r.assumptions = append(r.assumptions, a)
		}
	}
	r.mergedDistinct += p.Distinct
	r.mu.Unlock()
	for _, rep := range p.Reports {
		r.reportN(rep.Class, rep.Msg, rep.Replay, rep.N)
	}
}

// finishWorker writes the partial result of a worker process and exits 0.
func (r *Run) finishWorker() {
	r.mu.Lock()
	p := partial{Adds: map[string]int{}, Sets: map[string]any{}, Samples: r.samples, Assume: r.assumptions, Reports: r.wreports, Distinct: len(r.distinct)}
	if len(p.Samples) > 3 {
		p.Samples = p.Samples[:3]
	}
	for k, v := range r.cov {
		if n, ok := v.(int); ok && r.added[k] {
			p.Adds[k] = n
		} else {
			p.Sets[k] = v
		}
	}
	r.mu.Unlock()
	b, err := json.Marshal(p)
	if err != nil {
		Fatal("marshal partial: %v", err)
	}
	if err := os.WriteFile(r.workerOut, b, 0o644); err != nil {
		Fatal("write partial: %v", err)
	}
	if r.internalError != "" {
		fmt.Fprintf(os.Stderr, "internal error in worker: %s\n", r.internalError)
		os.Exit(3) // the partial result (with any violations) has been written
	}
	os.Exit(0)
}
