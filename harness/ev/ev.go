// Package ev is the common evidence / violation / known-finding plumbing of every check.
package ev

import (
	"crypto/sha256"
	"encoding/hex"
	"encoding/json"
	"flag"
	"fmt"
	"os"
	"path/filepath"
	"sort"
	"strconv"
	"sync"
	"time"
)

// Root is the directory evidence, replays and known findings live in (the directory of ./run).
var Root = rootDir()

func rootDir() string {
	if d := os.Getenv("VERIF_ROOT"); d != "" {
		return d
	}
	return "/verif"
}

// Finding is one entry of /verif/known_findings.json.
type Finding struct {
	Kind     string `json:"kind"` // "known" or "fixed"
	Property string `json:"property"`
	Key      string `json:"key"`
	What     string `json:"what"`
	Commit   string `json:"commit,omitempty"`
	Match    string `json:"match,omitempty"` // human description of the predicate implemented in the check
}

type knownHit struct {
	f     Finding
	n     int
	first string
}

// Run collects what one invocation of a check covered.
type Run struct {
	ID     string
	Tier   string
	Seed   int64
	Level  string
	Replay string // path given with -replay ("" = normal run)

	mu          sync.Mutex
	start       time.Time
	cov         map[string]any
	samples     []any
	assumptions []string
	violations  int
	vfiles      []string
	known       map[string]*knownHit
	findings    []Finding
	seenV       map[string]bool
	Deadline    time.Time

	shard, nshards int
	workerOut      string
	wreports       []report
	wclass         map[string]int
	distinct       map[uint64]struct{}
	mergedDistinct int
	added          map[string]bool
	cleanup        []func()
	internalError  string
}

var (
	flagTier     = flag.String("tier", "quick", "quick or thorough")
	flagReplay   = flag.String("replay", "", "replay file")
	flagDeadline = flag.Duration("deadline", 0, "internal deadline (0 = tier default)")
)

// Start parses flags and loads the known-findings file.
func Start(id, level string) *Run {
	if !flag.Parsed() {
		flag.Parse()
	}
	r := &Run{ID: id, Tier: *flagTier, Level: level, Replay: *flagReplay, start: time.Now(),
		cov: map[string]any{}, known: map[string]*knownHit{}, seenV: map[string]bool{}}
	if t := os.Getenv("VERIF_TIER"); t != "" && !isFlagSet("tier") {
		r.Tier = t
	}
	if r.Tier != "quick" && r.Tier != "thorough" {
		r.Tier = "quick"
	}
	if s := os.Getenv("VERIF_SEED"); s != "" {
		if v, err := strconv.ParseInt(s, 10, 64); err == nil {
			r.Seed = v
		}
	}
	d := *flagDeadline
	if d == 0 {
		if r.Tier == "quick" {
			d = 8 * time.Minute
		} else {
			d = 45 * time.Minute
		}
	}
	r.Deadline = r.start.Add(d)
	b, err := os.ReadFile(filepath.Join(Root, "known_findings.json"))
	if err == nil {
		if err := json.Unmarshal(b, &r.findings); err != nil {
			fmt.Fprintf(os.Stderr, "known_findings.json: %v\n", err)
			os.Exit(2)
		}
	}
	return r
}

func isFlagSet(name string) bool {
	set := false
	flag.Visit(func(f *flag.Flag) {
		if f.Name == name {
			set = true
		}
	})
	return set
}

// Quick reports whether this is the quick tier.
func (r *Run) Quick() bool { return r.Tier == "quick" }

// Expired reports whether the internal deadline has passed (callers then stop enumerating and set exhaustive=false).
func (r *Run) Expired() bool { return time.Now().After(r.Deadline) }

// Set records a coverage key.
func (r *Run) Set(key string, v any) {
	r.mu.Lock()
	r.cov[key] = v
	r.mu.Unlock()
}

// Add adds to an integer coverage counter.
func (r *Run) Add(key string, n int) {
	r.mu.Lock()
	c, _ := r.cov[key].(int)
	r.cov[key] = c + n
	if r.added == nil {
		r.added = map[string]bool{}
	}
	r.added[key] = true
	r.mu.Unlock()
}

// Get returns an integer coverage counter.
func (r *Run) Get(key string) int {
	r.mu.Lock()
	defer r.mu.Unlock()
	c, _ := r.cov[key].(int)
	return c
}

// Sample records one concrete explored case (bounded number kept).
func (r *Run) Sample(v any) {
	r.mu.Lock()
	if len(r.samples) < 24 {
		r.samples = append(r.samples, v)
	}
	r.mu.Unlock()
}

// Assume records an assumption / trusted-base statement.
func (r *Run) Assume(s string) {
	r.mu.Lock()
	r.assumptions = append(r.assumptions, s)
	r.mu.Unlock()
}

// IsKnown reports whether a "known" entry with this key is listed for this property.
func (r *Run) IsKnown(key string) bool {
	for _, f := range r.findings {
		if f.Kind == "known" && f.Property == r.ID && f.Key == key {
			return true
		}
	}
	return false
}

// Report reports a discrepancy. class is the key of the predicate that explains it ("" = unexplained).
// If class is listed as a known finding for this property, the hit is counted and later printed as KNOWN-FINDING;
// otherwise a replay file is written and a VIOLATION line printed.
func (r *Run) Report(class, msg string, replay any) {
	r.reportN(class, msg, replay, 1)
}

func (r *Run) reportN(class, msg string, replay any, mult int) {
	r.mu.Lock()
	defer r.mu.Unlock()
	if r.workerOut != "" {
		if r.wclass == nil {
			r.wclass = map[string]int{}
		}
		r.wclass[class]++
		if r.wclass[class] <= 20 {
			r.wreports = append(r.wreports, report{Class: class, Msg: msg, Replay: replay, N: 1})
		} else {
			for i := len(r.wreports) - 1; i >= 0; i-- {
				if r.wreports[i].Class == class {
					r.wreports[i].N++
					break
				}
			}
		}
		return
	}
	if class != "" {
		for _, f := range r.findings {
			if f.Kind == "known" && f.Property == r.ID && f.Key == class {
				h := r.known[class]
				if h == nil {
					h = &knownHit{f: f, first: msg}
					r.known[class] = h
				}
				h.n += mult
				return
			}
		}
	}
	r.violations += mult
	body := map[string]any{"property": r.ID, "class": class, "message": msg, "input": replay}
	b, _ := json.MarshalIndent(body, "", " ")
	sum := sha256.Sum256(b)
	name := hex.EncodeToString(sum[:8]) + ".json"
	if r.seenV[name] {
		return
	}
	r.seenV[name] = true
	if len(r.vfiles) >= 25 {
		return
	}
	dir := filepath.Join(Root, "replays", r.ID)
	if os.Getenv("VERIF_SKIP_EVIDENCE") != "" {
		dir = filepath.Join(os.TempDir(), "verif-trial-replays", r.ID)
	}
	_ = os.MkdirAll(dir, 0o755)
	p := filepath.Join(dir, name)
	_ = os.WriteFile(p, b, 0o644)
	r.vfiles = append(r.vfiles, p)
	fmt.Printf("VIOLATION property=%s replay=%s\n", r.ID, p)
	fmt.Printf("  detail: class=%q %s\n", class, truncate(msg, 600))
}

func truncate(s string, n int) string {
	if len(s) > n {
		return s[:n] + "…"
	}
	return s
}

// Violations returns the number of violations so far.
func (r *Run) Violations() int {
	r.mu.Lock()
	defer r.mu.Unlock()
	return r.violations
}

// LoadReplay reads the "input" member of a replay file into v.
func (r *Run) LoadReplay(v any) error {
	b, err := os.ReadFile(r.Replay)
	if err != nil {
		return err
	}
	var body struct {
		Input json.RawMessage `json:"input"`
	}
	if err := json.Unmarshal(b, &body); err != nil {
		return err
	}
	return json.Unmarshal(body.Input, v)
}

// OnFinish registers a cleanup that runs before Finish exits the process (deferred calls do not survive os.Exit).
func (r *Run) OnFinish(f func()) { r.cleanup = append(r.cleanup, f) }

// Finish writes the evidence file, prints KNOWN-FINDING lines and exits.
func (r *Run) Finish() {
	for _, f := range r.cleanup {
		f()
	}
	if r.workerOut != "" {
		r.finishWorker()
	}
	r.mu.Lock()
	if n := len(r.distinct) + r.mergedDistinct; n > 0 {
		r.cov["distinct_nontrivial"] = n
	}
	keys := make([]string, 0, len(r.known))
	for k := range r.known {
		keys = append(keys, k)
	}
	sort.Strings(keys)
	kf := []any{}
	for _, k := range keys {
		h := r.known[k]
		fmt.Printf("KNOWN-FINDING: property=%s %s [%s] (%d cases, first: %s)\n", r.ID, h.f.What, k, h.n, truncate(h.first, 300))
		kf = append(kf, map[string]any{"key": k, "cases": h.n, "first": truncate(h.first, 300)})
	}
	cov := map[string]any{}
	for k, v := range r.cov {
		cov[k] = v
	}
	if len(r.samples) == 0 {
		r.samples = append(r.samples, "no sample recorded")
	}
	cov["samples"] = r.samples
	cov["known_findings_hit"] = kf
	if _, ok := cov["exhaustive"]; !ok {
		cov["exhaustive"] = false
	}
	e := map[string]any{
		"property_id": r.ID,
		"tier":        r.Tier,
		"seed":        r.Seed,
		"level":       r.Level,
		"coverage":    cov,
		"assumptions": r.assumptions,
		"wall_s":      time.Since(r.start).Seconds(),
		"violations":  r.violations,
	}
	if e["assumptions"] == nil {
		e["assumptions"] = []string{}
	}
	v := r.violations
	r.mu.Unlock()
	if r.Replay == "" && os.Getenv("VERIF_SKIP_EVIDENCE") == "" {
		b, _ := json.MarshalIndent(e, "", " ")
		p := filepath.Join(Root, "evidence", r.ID+".json")
		_ = os.MkdirAll(filepath.Dir(p), 0o755)
		if err := os.WriteFile(p, append(b, '\n'), 0o644); err != nil {
			fmt.Fprintf(os.Stderr, "cannot write evidence: %v\n", err)
			os.Exit(2)
		}
	}
	fmt.Printf("%s %s: violations=%d wall=%.1fs\n", r.ID, r.Tier, v, time.Since(r.start).Seconds())
	if v > 0 {
		os.Exit(1)
	}
	if r.internalError != "" {
		Fatal("%s", r.internalError)
	}
	os.Exit(0)
}

// InternalError records an internal problem: the run ends with exit status 2 unless a violation was found.
func (r *Run) InternalError(format string, a ...any) {
	r.mu.Lock()
	r.internalError += " " + fmt.Sprintf(format, a...) + ";"
	r.mu.Unlock()
}

// Fatal aborts with an internal error (never a VIOLATION).
func Fatal(format string, a ...any) {
	fmt.Fprintf(os.Stderr, "internal error: "+format+"\n", a...)
	os.Exit(2)
}
