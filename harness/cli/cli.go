// Package cli runs the real emerge binary (built from the repository under test) on a specification text, so that
// checks whose property is also observed "at the CLI" can compare what the tool says with what the library says.
package cli

import (
	"bytes"
	"fmt"
	"os"
	"os/exec"
	"path/filepath"
	"regexp"
	"strings"
	"sync"
	"sync/atomic"
	"time"
)

// Tool is the built binary plus a scratch directory.
type Tool struct {
	Bin string
	tmp string
	n   atomic.Int64
}

var (
	once sync.Once
	tool *Tool
	berr error
)

// Get builds the binary once per process (the Go build cache makes later builds in other worker processes cheap).
func Get() (*Tool, error) {
	once.Do(func() {
		tmp, err := os.MkdirTemp("", "verif-cli-")
		if err != nil {
			berr = err
			return
		}
		bin := filepath.Join(tmp, "emerge")
		build := exec.Command("go", "build", "-o", bin, "./cmd/emerge")
		build.Dir = "/repo"
		if out, err := build.CombinedOutput(); err != nil {
			berr = fmt.Errorf("building the CLI failed: %v\n%s", err, out)
			_ = os.RemoveAll(tmp)
			return
		}
		tool = &Tool{Bin: bin, tmp: tmp}
	})
	return tool, berr
}

// Close removes the scratch directory.
func (t *Tool) Close() {
	if t != nil {
		_ = os.RemoveAll(t.tmp)
	}
}

// Result of one run.
type Result struct {
	Code      int // exit status; -2 = killed after the deadline
	Stdout    string
	Stderr    string
	Announced bool     // the success announcement was printed
	Files     []string // names of the files found under <out>/<name>/ afterwards (sorted by the OS listing)
	Trace     bool     // output looks like a Go stack trace
}

var emoji = regexp.MustCompile(`[^\x00-\x7F]+ `)

// StripEmoji removes the decorative characters in front of the messages.
func StripEmoji(s string) string { return emoji.ReplaceAllString(s, "") }

// Run writes text to <scratch>/<fileName>, runs `emerge <args...> <fileName>` there and returns what happened.
// pkg is the directory name expected under the scratch directory (for listing the emitted files); may be "".
func (t *Tool) Run(fileName, text, pkg string, args ...string) Result {
	dir := filepath.Join(t.tmp, fmt.Sprintf("r%d", t.n.Add(1)))
	_ = os.MkdirAll(dir, 0o755)
	defer os.RemoveAll(dir)
	_ = os.WriteFile(filepath.Join(dir, fileName), []byte(text), 0o644)
	cmd := exec.Command(t.Bin, append(append([]string{}, args...), fileName)...)
	cmd.Dir = dir
	cmd.Env = append(os.Environ(), "NO_COLOR=1", "TERM=dumb")
	var so, se bytes.Buffer
	cmd.Stdout, cmd.Stderr = &so, &se
	res := Result{}
	if err := cmd.Start(); err != nil {
		res.Code = -1
		res.Stderr = err.Error()
		return res
	}
	done := make(chan error, 1)
	go func() { done <- cmd.Wait() }()
	select {
	case err := <-done:
		if ee, ok := err.(*exec.ExitError); ok {
			res.Code = ee.ExitCode()
		} else if err != nil {
			res.Code = -1
		}
	case <-time.After(120 * time.Second):
		_ = cmd.Process.Kill()
		<-done
		res.Code = -2
	}
	res.Stdout, res.Stderr = so.String(), se.String()
	all := res.Stdout + res.Stderr
	res.Announced = strings.Contains(all, "Successful")
	res.Trace = strings.Contains(all, "goroutine ") || strings.Contains(all, "panic:") || strings.Contains(all, "runtime error")
	if pkg != "" {
		if es, err := os.ReadDir(filepath.Join(dir, pkg)); err == nil {
			for _, e := range es {
				res.Files = append(res.Files, e.Name())
			}
		}
	}
	return res
}
