// Package impl wraps emerge's entry points for the checks: panics are captured and results are rendered
// into canonical, comparable digests.
package impl

import (
	"fmt"
	"sort"
	"strings"
	"time"

	"github.com/gardenbed/emerge/internal/ebnf/parser/spec"
)

// Def is one terminal definition of an accepted specification.
type Def struct {
	Terminal, Value   string
	IsRegex, HasPos   bool
	Offset, Line, Col int
}

// Result of spec.Parse.
type Result struct {
	Err      string // "" on success
	Panic    string // non-empty if spec.Parse panicked
	NilNil   bool   // (nil, nil) returned
	Name     string
	Prods    []string // sorted
	Terms    []string // sorted
	NonTerms []string // sorted
	Defs     []Def    // in the order emerge returns them
	Prec     []string // one line per level, in order
	Start    string
	Spec     *spec.Spec
}

// Parse runs spec.Parse on text.
func Parse(filename, text string) (res *Result) {
	res = &Result{}
	defer func() {
		if p := recover(); p != nil {
			res.Panic = fmt.Sprint(p)
		}
	}()
	s, err := spec.Parse(filename, strings.NewReader(text))
	if err != nil {
		res.Err = err.Error()
		if s != nil {
			res.Err += " (with non-nil result)"
		}
		return res
	}
	if s == nil {
		res.NilNil = true
		return res
	}
	res.Spec = s
	res.Name = s.Name
	res.Start = string(s.Grammar.Start)
	for p := range s.Grammar.Productions.All() {
		res.Prods = append(res.Prods, p.String())
	}
	sort.Strings(res.Prods)
	for a := range s.Grammar.Terminals.All() {
		res.Terms = append(res.Terms, string(a))
	}
	sort.Strings(res.Terms)
	for A := range s.Grammar.NonTerminals.All() {
		res.NonTerms = append(res.NonTerms, string(A))
	}
	sort.Strings(res.NonTerms)
	for _, d := range s.Definitions {
		x := Def{Terminal: string(d.Terminal), Value: d.Value, IsRegex: d.IsRegex}
		if d.Pos != nil {
			x.HasPos, x.Offset, x.Line, x.Col = true, d.Pos.Offset, d.Pos.Line, d.Pos.Column
		}
		res.Defs = append(res.Defs, x)
	}
	for _, l := range s.Precedences {
		res.Prec = append(res.Prec, l.String())
	}
	return res
}

// OK reports a successful parse.
func (r *Result) OK() bool { return r.Err == "" && r.Panic == "" && !r.NilNil }

// Digest renders everything except positions.
func (r *Result) Digest() string {
	if r.Panic != "" {
		return "PANIC " + r.Panic
	}
	if r.Err != "" {
		return "ERROR " + r.Err
	}
	var b strings.Builder
	fmt.Fprintf(&b, "name=%s start=%s\nterminals=%q\nnonterminals=%q\n", r.Name, r.Start, r.Terms, r.NonTerms)
	for _, p := range r.Prods {
		fmt.Fprintf(&b, "P %s\n", p)
	}
	for _, d := range r.Defs {
		fmt.Fprintf(&b, "D %q %q regex=%v\n", d.Terminal, d.Value, d.IsRegex)
	}
	for i, l := range r.Prec {
		fmt.Fprintf(&b, "L%d %s\n", i, l)
	}
	return b.String()
}

// ParseTimeout runs Parse under a watchdog. hung reports that the call did not return within d; the caller
// must then wind down quickly, because the runaway goroutine keeps a core busy until the process exits.
func ParseTimeout(filename, text string, d time.Duration) (res *Result, hung bool) {
	done := make(chan *Result, 1)
	go func() { done <- Parse(filename, text) }()
	select {
	case r := <-done:
		return r, false
	case <-time.After(d):
		return &Result{Err: "DID NOT TERMINATE"}, true
	}
}
