// Package emitted generates packages with the real golang.Generate into a throw-away module, compiles them
// (translation validation: the emitted text must be valid, stdlib-only Go) and builds a driver program that links
// in-package helper files with every emitted package so that the emitted code itself can be executed.
package emitted

import (
	"bytes"
	"fmt"
	"go/parser"
	"go/token"
	"os"
	"os/exec"
	"path/filepath"
	"regexp"
	"sort"
	"strings"

	"github.com/gardenbed/charm/ui"

	"github.com/gardenbed/emerge/internal/ebnf/parser/spec"
	"github.com/gardenbed/emerge/internal/generate/golang"
)

// Program is one specification to emit.
type Program struct {
	Name     string // package name
	SpecText string
	Debug    bool // generate with Params.Debug (the -debug flag)
	Spec     *spec.Spec
	GenErr   string   // golang.Generate failed
	BuildErr []string // compiler / vet diagnostics for this package
	Imports  []string // non-stdlib imports found
	Files    []string
}

// OK reports whether the package was generated and compiled.
func (p *Program) OK() bool { return p.GenErr == "" && len(p.BuildErr) == 0 && len(p.Imports) == 0 }

// Batch is a throw-away module holding the emitted packages.
type Batch struct {
	Dir      string
	Programs []*Program
}

func goCmd(dir string, args ...string) ([]byte, error) {
	cmd := exec.Command("go", args...)
	cmd.Dir = dir
	cmd.Env = append(os.Environ(), "GOFLAGS=-mod=mod", "GOPROXY=off", "GOSUMDB=off", "GOTOOLCHAIN=local", "GOWORK=off")
	return cmd.CombinedOutput()
}

// Emit generates every program with the real generator and compiles the pristine packages.
func Emit(programs []*Program) (*Batch, error) {
	dir, err := os.MkdirTemp("", "verif-emitted-")
	if err != nil {
		return nil, err
	}
	b := &Batch{Dir: dir, Programs: programs}
	if err := os.WriteFile(filepath.Join(dir, "go.mod"), []byte("module emitted\n\ngo 1.24\n"), 0o644); err != nil {
		return b, err
	}
	for _, p := range programs {
		func() {
			defer func() {
				if r := recover(); r != nil {
					p.GenErr = fmt.Sprintf("panic: %v", r)
				}
			}()
			s := *p.Spec
			s.Name = p.Name
			if err := golang.Generate(ui.NewNop(), &golang.Params{Debug: p.Debug, Path: dir, Spec: &s}); err != nil {
				p.GenErr = err.Error()
			}
		}()
		if p.GenErr != "" {
			_ = os.RemoveAll(filepath.Join(dir, p.Name))
			continue
		}
		entries, _ := os.ReadDir(filepath.Join(dir, p.Name))
		for _, e := range entries {
			p.Files = append(p.Files, e.Name())
			// stdlib-only imports
			f, err := parser.ParseFile(token.NewFileSet(), filepath.Join(dir, p.Name, e.Name()), nil, parser.ImportsOnly)
			if err != nil {
				continue // the compiler will say more
			}
			for _, im := range f.Imports {
				path := strings.Trim(im.Path.Value, `"`)
				if first := strings.SplitN(path, "/", 2)[0]; strings.Contains(first, ".") || first == "emitted" {
					p.Imports = append(p.Imports, path)
				}
			}
		}
		sort.Strings(p.Files)
	}
	// compile everything; attribute diagnostics to packages
	for _, args := range [][]string{{"build", "./..."}, {"vet", "./..."}} {
		out, _ := goCmd(dir, args...)
		attribute(b, out)
	}
	return b, nil
}

var diagRE = regexp.MustCompile(`^(?:\./)?([A-Za-z0-9_]+)/[a-z_]+\.go:\d+`)
var pkgRE = regexp.MustCompile(`^# emitted/([A-Za-z0-9_]+)`)

func attribute(b *Batch, out []byte) {
	byName := map[string]*Program{}
	for _, p := range b.Programs {
		byName[p.Name] = p
	}
	cur := ""
	for _, line := range strings.Split(string(out), "\n") {
		if m := pkgRE.FindStringSubmatch(line); m != nil {
			cur = m[1]
			continue
		}
		name := cur
		if m := diagRE.FindStringSubmatch(line); m != nil {
			name = m[1]
		} else if strings.TrimSpace(line) == "" {
			continue
		}
		if p := byName[name]; p != nil && len(p.BuildErr) < 6 {
			dup := false
			for _, e := range p.BuildErr {
				dup = dup || e == line
			}
			if !dup {
				p.BuildErr = append(p.BuildErr, line)
			}
		}
	}
}

// Driver adds helper(p) as an extra file to every compiled package and builds mainSrc (package main under
// cmd/driver, importing "emitted/<name>") into an executable whose path is returned.
func (b *Batch) Driver(helper func(p *Program) string, mainSrc string) (string, error) {
	for _, p := range b.Programs {
		if !p.OK() {
			continue
		}
		if err := os.WriteFile(filepath.Join(b.Dir, p.Name, "zz_verif_helper.go"), []byte(helper(p)), 0o644); err != nil {
			return "", err
		}
	}
	d := filepath.Join(b.Dir, "cmd", "driver")
	if err := os.MkdirAll(d, 0o755); err != nil {
		return "", err
	}
	if err := os.WriteFile(filepath.Join(d, "main.go"), []byte(mainSrc), 0o644); err != nil {
		return "", err
	}
	bin := filepath.Join(b.Dir, "driver.bin")
	if out, err := goCmd(b.Dir, "build", "-o", bin, "./cmd/driver"); err != nil {
		return "", fmt.Errorf("building the driver failed: %v\n%s", err, out)
	}
	return bin, nil
}

// Run executes the driver with stdin and returns its stdout.
func Run(bin string, stdin []byte, args ...string) ([]byte, error) {
	cmd := exec.Command(bin, args...)
	cmd.Stdin = bytes.NewReader(stdin)
	var out, errb bytes.Buffer
	cmd.Stdout = &out
	cmd.Stderr = &errb
	if err := cmd.Run(); err != nil {
		return out.Bytes(), fmt.Errorf("%v: %s", err, errb.String())
	}
	return out.Bytes(), nil
}

// Close removes the module.
func (b *Batch) Close() { _ = os.RemoveAll(b.Dir) }
