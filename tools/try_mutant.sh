#!/bin/bash
# Applies a seeded change to /repo, runs the given checks (quick tier, or thorough with TIER=thorough), reports which ones
# raise a VIOLATION, and restores /repo. Usage: tools/try_mutant.sh <patch.diff> [Cxx ...]   (default: all checks)
set -u
patch="$(readlink -f "$1")"; shift
tier="${TIER:-quick}"
checks="$*"
[ -z "$checks" ] && checks="C01 C02 C03 C04 C05 C06 C07 C08 C09 C10 C11 C12 C13 C14 C15 C16 C17 C18 C19 C20"
cd /repo || exit 2
if ! git diff --quiet || ! git diff --cached --quiet; then echo "/repo is not clean" >&2; exit 2; fi
if ! git apply --check "$patch" 2>/dev/null; then echo "patch does not apply: $patch" >&2; exit 2; fi
git apply "$patch"
restore() { git -C /repo checkout -- . ; git -C /repo clean -fdq ; }
trap restore EXIT
. /verif/env.sh
if ! go build ./... 2>/tmp/try_mutant_build.log; then echo "BUILD-FAILS"; cat /tmp/try_mutant_build.log | head -5; exit 3; fi
caught=""
for c in $checks; do
  out=$(cd /verif && VERIF_SKIP_EVIDENCE=1 ./run "$c" "$tier" 2>&1)
  rc=$?
  n=$(echo "$out" | grep -c '^VIOLATION')
  if [ "$rc" = 1 ] && [ "$n" -gt 0 ]; then
    caught="$caught $c"
    echo "== $c: CAUGHT ($n violation lines)"; echo "$out" | grep -A2 '^VIOLATION' | head -6 | cut -c1-300
  elif [ "$rc" != 0 ]; then
    echo "== $c: exit $rc without VIOLATION"; echo "$out" | tail -3 | cut -c1-300
  else
    echo "== $c: silent"
  fi
done
echo "CAUGHT-BY:$caught"
