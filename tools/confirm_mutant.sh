#!/bin/bash
# Confirms a sub-agent's seeded change in its scratch worktree /tmp/mut/<id>: suite green with the change, demo fails
# with it and passes without it. Usage: tools/confirm_mutant.sh C07
set -u
id="$1"
. /verif/env.sh
cd ${MUTROOT:-/tmp/mut}/$id || exit 2
[ -s zz_out/patch.diff ] || { echo "no patch"; exit 2; }
pk=$(go list ./... 2>/dev/null | grep -v zz_demo | grep -v zz_out)
if go test -vet=off -count=1 $pk > /tmp/confirm_$id.suite 2>&1; then echo "suite-with-change: PASS"; else echo "suite-with-change: FAIL"; grep -v "^ok" /tmp/confirm_$id.suite | head -5; fi
rundemo() {
  if find zz_demo -name "*_test.go" | grep -q . ; then go test -vet=off -count=1 ./zz_demo/... ; else go run ./zz_demo ; fi
}
rundemo > /tmp/confirm_$id.with 2>&1; w=$?
git apply -R zz_out/patch.diff
rundemo > /tmp/confirm_$id.without 2>&1; wo=$?
git apply zz_out/patch.diff
echo "demo-with-change: exit $w   demo-without-change: exit $wo"
if [ $w != 0 ] && [ $wo = 0 ]; then echo "CONFIRMED"; else echo "NOT-CONFIRMED"; tail -5 /tmp/confirm_$id.with; tail -5 /tmp/confirm_$id.without; fi
