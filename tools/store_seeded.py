#!/usr/bin/env python3
"""Stores a confirmed seeded change under /verif/seeded/<id>/ and adds its row to seeded/RESULTS.md.
usage: tools/store_seeded.py <mutroot> <Cxx> <round> <caught-by, comma separated> <caught|strengthened> <one-line description> [<what was strengthened>]"""
import json, os, shutil, subprocess, sys
root, pid, rnd, caught, first, desc = sys.argv[1:7]
how = sys.argv[7] if len(sys.argv) > 7 else ""
sid = f"{pid}-r{rnd}"
src = f"{root}/{pid}/zz_out"
dst = f"/verif/seeded/{sid}"
os.makedirs(dst, exist_ok=True)
shutil.copy(f"{src}/patch.diff", f"{dst}/patch.diff")
if os.path.exists(f"{src}/NOTES.md"):
    shutil.copy(f"{src}/NOTES.md", f"{dst}/NOTES.md")
if os.path.isdir(f"{src}/demo"):
    shutil.rmtree(f"{dst}/demo", ignore_errors=True)
    shutil.copytree(f"{src}/demo", f"{dst}/demo")
commit = subprocess.run(["git", "-C", "/repo", "rev-parse", "--short", "HEAD"], capture_output=True, text=True).stdout.strip()
meta = {
    "id": sid,
    "breaks_property": pid,
    "origin": f"independent sub-agent (round {rnd}, with a focus on a mechanism not targeted in earlier rounds) given only the property text and a scratch worktree of /repo (commit {commit})",
    "needs_to_manifest": "see NOTES.md (written by the sub-agent)",
    "confirmed": [
        f"pinned suite (846 tests) passes with the change: MUTROOT={root} tools/confirm_mutant.sh",
        "demonstration fails with the change and passes without it",
    ],
    "ran": [f"tools/try_mutant.sh seeded/{sid}/patch.diff {' '.join(caught.split(','))}"],
    "caught_by": caught.split(","),
    "first_attempt": "reported by the check as it stood" if first == "caught" else "missed by the check as it stood; " + how,
}
json.dump(meta, open(f"{dst}/meta.json", "w"), indent=1, ensure_ascii=False)
with open("/verif/seeded/RESULTS.md") as f:
    text = f.read()
row = f"| seeded/{sid} | {desc} | {', '.join(caught.split(','))} | {first} |\n"
marker = "\nOwn changes (tools/try_mutant.sh"
i = text.index(marker)
# rows of one round are kept together: a blank line separates rounds
head = text[:i]
if f"-r{rnd} |" not in head:
    head = head.rstrip("\n") + "\n\n"
else:
    head = head.rstrip("\n") + "\n"
open("/verif/seeded/RESULTS.md", "w").write(head + row + text[i:])
print("stored", sid)
