#!/bin/bash
# For `vp run --with-repo -- tools/in_snapshot.sh <tier> <Cxx ...>`: points this snapshot of /verif at the snapshot of
# /repo ($VP_RUN_REPO) instead of /repo itself (so that seeded changes being tried in /repo do not disturb a long run),
# gives the instrumented builds scratch directories of their own, then runs the named checks one after the other.
set -u
r="${VP_RUN_REPO:?needs vp run --with-repo}"
tier="$1"; shift
grep -rl '/repo\|/tmp/verif-c' harness/go.mod harness/cmd instr/main.go run | \
  xargs sed -i "s#=> /repo#=> $r#g; s#\"/repo#\"$r#g; s#/tmp/verif-c\([0-9]*\)-instr#/tmp/verif-snap$$-c\1-instr#g; s#/tmp/verif-\"\$lc\"-instr#/tmp/verif-snap$$-\"\$lc\"-instr#"
rc_all=0
for c in "$@"; do
  s=$(date +%s)
  ./run "$c" "$tier" > "log.$c.$tier" 2>&1; rc=$?
  e=$(( $(date +%s) - s ))
  echo "$c $tier rc=$rc ${e}s $(grep -c '^VIOLATION' "log.$c.$tier") violations, $(grep -c '^KNOWN-FINDING' "log.$c.$tier") known; $(python3 -c "
import json,sys
try:
    e=json.load(open('evidence/$c.json')); c=e.get('coverage',{}); print('exhaustive=',c.get('exhaustive'),'evaluations=',c.get('evaluations'),'caps=',c.get('caps_hit',c.get('caps')))
except Exception as x: print('no evidence',x)
")"
  [ $rc != 0 ] && rc_all=1 && grep -v '^VIOLATION' "log.$c.$tier" | head -8 | cut -c1-300
done
exit $rc_all
