#!/usr/bin/env python3
"""Writes the prompts for a round of seeded changes and creates one scratch worktree of /repo per property.
usage: tools/mk_mutant_prompts.py <round-dir, e.g. /tmp/mut5> <focus.json: {"C02": "focus text", ...}>
The prompts contain only the text of one property (nothing from /verif)."""
import json,subprocess,os,sys
root,focusfile=sys.argv[1],sys.argv[2]
props={}
for l in open('/verif/properties.jsonl'):
    p=json.loads(l); props[p['id']]=p
focus=json.load(open(focusfile))
os.makedirs(root,exist_ok=True)
for pid,f in focus.items():
    p=props[pid]
    wt=f"{root}/{pid}"
    txt=f"""You are working in a scratch git worktree of the Go project gardenbed/emerge at {wt} (a parser generator: EBNF grammar -> LALR(1) parser + DFA lexer). Work ONLY inside {wt}; never touch /repo or /verif and do not read anything under /verif. Do NOT use `git stash` (the stash is shared with other worktrees); to test without your change use `git diff > {root}/{pid}.my.diff && git apply -R {root}/{pid}.my.diff` and afterwards `git apply {root}/{pid}.my.diff`.

Every shell command must start with:
export PATH=/root/go/pkg/mod/golang.org/toolchain@v0.0.1-go1.24.0.linux-amd64/bin:$PATH GOTOOLCHAIN=local GOSUMDB=off GOFLAGS=-mod=mod GOPROXY=off
(there is no network). The project's test suite is: cd {wt} && go test -vet=off -count=1 $(go list ./... | grep -v zz_)   (it must print ok for every package; 846 tests).

Here is a semantic property the project is supposed to satisfy:

ID: {pid} - {p['title']}
STATEMENT: {p['statement']}
QUANTIFIED OVER: {p['quantifier']['text']}
WHERE IT LIVES: files {', '.join(x.replace('/repo/','') for x in p['anchors']['files'])}; mechanisms: {'; '.join(m['name']+' ('+m['where']+')' for m in p['anchors']['mechanism'])}
OBSERVED AT: {'; '.join(p['anchors'].get('observe_at') or [])}

YOUR TASK: make ONE realistic source change (a plausible bug a developer could introduce) in the non-test Go sources or templates of this worktree such that
  1. the project still compiles (go build ./...) and the ENTIRE existing test suite still passes (run it twice),
  2. the property above is violated,
  3. the violation needs something SPECIFIC to manifest - a particular input shape, a multi-step sequence, an unusual but legal input, or two sites that each look fine alone - not something ordinary use would expose at once. Avoid changes that break nearly every input. Prefer a change whose trigger is NARROW (a single unusual construct, a boundary value, a rare combination).
FOCUS: put the change in {f}.
Do not edit any *_test.go file, go.mod or go.sum. Do not add new dependencies.

Then write a DEMONSTRATION: a small Go test file or program in a NEW directory {wt}/zz_demo/ (package main, or a _test.go file in a new package; it may import the project's internal packages because it lives inside the module) that FAILS (non-zero exit / failing test) with your change and PASSES without it. Verify both directions yourself.

DELIVERABLES (all inside {wt}/zz_out/, create the directory):
  - patch.diff : output of `git diff` for the source change ONLY (not zz_demo, not zz_out),
  - demo/ : a copy of your demonstration files (sources only),
  - NOTES.md : which file/function you changed and why it breaks the property, what exactly is needed for the violation to manifest, the exact commands to run the demonstration, the observed outputs with and without the change, and confirmation that the full test suite passed with the change.
Leave the worktree with the change APPLIED. Keep your final answer short: the one-paragraph summary from NOTES.md."""
    open(f'{root}/{pid}.prompt.txt','w').write(txt)
    subprocess.run(['git','-C','/repo','worktree','add','-q','--detach',wt,'HEAD'])
print(sorted(focus))
