#!/usr/bin/env python3
"""Generates /verif/MANIFEST.json from the table below (single source of truth for the check registry)."""
import json, subprocess

CHECKS = {
 "C02": dict(level="model_checking", design="§4 C02",
   technique="explicit-state exploration of the product of reference (Brzozowski-derivative) automaton and the real NFA / token-pipeline DFA per enumerated pattern",
   text="For every pattern tree below the size bound (and every class/escape/bracket/quantifier form, and the predefined patterns) the real nfa.Parse automaton and the real Spec.DFA pipeline automaton are compared with a reference automaton by exhaustive exploration of their product over ASCII\\{NUL} plus non-ASCII probes: language equality per pattern, complete for the explored alphabet.",
   note="Trusted: the reference class tables and derivative matcher (self-tested on every run against Go's regexp on the shared syntax subset and against the reference parser); NUL is not in the compared alphabet."),
 "C09": dict(level="exploration", design="§4 C09",
   technique="bounded-exhaustive enumeration of pattern strings against a context-free membership oracle for the documented grammar",
   text="Every string up to the length bound over an alphabet containing every metacharacter, every canonical print of the C02 pattern trees, and every single-character edit of the small prints is given to nfa.Parse and (regex) ast.Parse; acceptance requires that the whole string be derivable in the documented grammar (decided by a memoised CFG recogniser that admits any derivation), canonical prints must be accepted, meaningless ranges must be rejected with the range named, and the two entry points must agree.",
   note="Trusted: the transcription of the pattern grammar from docs/5-definitions.md in ref/patgram; `char` read as any character (most permissive)."),
 "C10": dict(level="model_checking", design="§4 C10",
   technique="explicit-state exploration of the three-way product automaton (reference, NFA route, followpos route) per enumerated pattern",
   text="For the C02 pattern space plus closed families of nullable operands and repetition ranges, the automata produced by nfa.Parse and by (regex) ast.Parse(p).ToDFA() are each compared with the reference automaton by exhaustive product exploration: full language equality per pattern over the explored alphabet.",
   note="Trusted: same reference as C02. The NFA route inherits the known finding nul-epsilon (rune 0 is the library's ε); the followpos route must equal the reference exactly."),
}

NOT_YET = {}

def main():
    props=[json.loads(l) for l in open('/verif/properties.jsonl')]
    checks=[]
    for p in props:
        c=CHECKS.get(p['id'])
        if not c: continue
        checks.append({
          "property_id": p['id'],
          "quick_cmd": f"./run {p['id']} quick",
          "thorough_cmd": f"./run {p['id']} thorough",
          "evidence_file": f"/verif/evidence/{p['id']}.json",
          "replay_cmd_template": f"./run {p['id']} quick -replay {{path}}",
          "engine": c.get("engine","harness"),
          "level_claimed": {"category": c['level'], "text": c['text'], "design_ref": c['design']},
          "level_note": c['note'],
          "technique": c['technique'],
        })
    na=[{"property_id":p['id'],"reason":NOT_YET.get(p['id'],"check not built yet in this round (planned, see DESIGN.md §4); not a limit of the technique")} for p in props if p['id'] not in CHECKS]
    commits=subprocess.run(['git','-C','/repo','log','--format=%H %s'],capture_output=True,text=True).stdout.splitlines()
    hooks=[c.split()[0] for c in commits if ' verif hooks' in c]
    m={
     "version":1,
     "setup_cmd":"./setup.sh",
     "hooks":{"guard":"verif","enable":"go build -tags verif (done by ./run for every check)",
              "baseline_off_cmd":"cd /repo && PATH=/root/go/pkg/mod/golang.org/toolchain@v0.0.1-go1.24.0.linux-amd64/bin:$PATH GOTOOLCHAIN=local GOFLAGS=-mod=mod GOPROXY=off GOSUMDB=off go test -json -vet=off -count=1 -timeout 25m ./...",
              "source_commits":hooks,"add_only":True},
     "engines":[{"name":"harness","path":"/verif/harness","serves_properties":sorted(CHECKS),
                 "kind_free_text":"hand-written Go explorers: product-automaton BFS, bounded-exhaustive enumerators with reference models, deviation-bounded DFS over owned nondeterminism, syscall fault enumeration"}],
     "checks":checks,
     "not_applicable":na,
     "notes":"All checks rebuild against /repo's working tree through ./run (go build -tags verif, module replace => /repo). Known findings: /verif/known_findings.json.",
    }
    json.dump(m,open('/verif/MANIFEST.json','w'),indent=1)
    print("checks:",[c['property_id'] for c in checks],"na:",len(na))
main()
