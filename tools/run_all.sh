#!/bin/bash
# Runs every registered check (quick by default) on the current tree and prints one line per check.
tier="${1:-quick}"
cd /verif
rc_all=0
for c in $(python3 -c "import json;print(' '.join(x['property_id'] for x in json.load(open('MANIFEST.json'))['checks']))"); do
  s=$(date +%s)
  out=$(./run $c $tier 2>&1); rc=$?
  e=$(( $(date +%s) - s ))
  echo "$c rc=$rc ${e}s $(echo "$out" | grep -c '^VIOLATION') violations, $(echo "$out" | grep -c '^KNOWN-FINDING') known"
  [ $rc != 0 ] && rc_all=1 && echo "$out" | grep -v '^VIOLATION' | head -5 | cut -c1-300
done
exit $rc_all
