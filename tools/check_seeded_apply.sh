#!/bin/bash
# Reports which stored seeded changes no longer apply to /repo's current tree (after a repair touched the same lines).
cd /repo || exit 2
for p in /verif/seeded/*/patch.diff; do
  git apply --check "$p" 2>/dev/null || echo "DOES-NOT-APPLY $p"
done
