#!/bin/bash
# Runs the pinned test suite of /repo (guard OFF) and prints pass/fail counts; exit 0 iff no test failed.
# Usage: tools/repo_tests.sh [repo-dir]
. /verif/env.sh
dir="${1:-/repo}"
cd "$dir" || exit 2
out=$(mktemp)
go test -mod=mod -json -vet=off -count=1 -timeout 25m ./... > "$out" 2>&1
python3 - "$out" <<'PY'
import json,sys
p=f=0; failed=[]
for l in open(sys.argv[1]):
    try: e=json.loads(l)
    except Exception: continue
    if e.get('Test') and e.get('Action') in ('pass','fail'):
        if e['Action']=='pass': p+=1
        else: f+=1; failed.append(e['Package']+'::'+e['Test'])
print(f"passed={p} failed={f}")
for t in failed[:20]: print(" FAIL",t)
sys.exit(1 if f or p==0 else 0)
PY
rc=$?
rm -f "$out"
exit $rc
